"""C10 - solving leaves the game description intact and is repeatable (histories).

Histories of operations on ONE caller-owned description: build an object on the
caller's lists, solve an existing object, flip an object's pruning mode, build
and solve in one step, run the batch driver.  Invariant after every step: the
four fields of the description are deeply and structurally equal to a pristine
copy.  Every outcome in a pruning mode equals the first outcome recorded for
that mode.  Generated twice: as plain (game, op list) values that Hypothesis
shrinks as one value, and by a hypothesis.stateful.RuleBasedStateMachine.
"""
import copy

import hypothesis
from hypothesis import strategies as st
from hypothesis.stateful import RuleBasedStateMachine, initialize, invariant, precondition, rule

from harness import exact, games
from harness.analysis import GameFacts, T_MAX, budgeted
from harness.budget import BudgetExceeded
from harness.exact import OracleError
from harness.games import P1, P2, PR
from harness.load import repo
from harness.runner import Phase, Verdict
from harness.sut import SkipSolve

ID = "C10"
LEVEL = "exploration"
TECHNIQUE = ("model-based generation of call histories (Hypothesis: op-list strategy and RuleBasedStateMachine) with an "
             "invariant after every step (description == pristine copy) and a differential oracle (outcome == first "
             "outcome of that mode)")
LEVEL_TEXT = ("Generated histories (up to 12 operations) over constructed stopping games and the repository's example "
              "games: new object on the caller's lists, solve, flip mode, fresh solve, batch run, in any order and "
              "repetition. After every operation the caller's rewards / players / transition lists / finals are compared "
              "deeply and structurally (types, float repr) with a pristine copy; every outcome is compared with the "
              "first outcome of the same mode (8-tuple equality including iteration counts, or same exception type and "
              "message). Exploration over histories; failing histories are minimised (Hypothesis shrinker for op "
              "lists, ddmin for state-machine runs) into replay files.")
LEVEL_NOTE = ("Trusted: the interpreter in props/c10.py. run_games adds the key 'prune_states' to the caller's dict, a "
              "documented part of its behaviour and not one of the four fields the property names, so that key is "
              "ignored and objects are built from the four named fields.")
RULE = ("case = (game description, list of operations). Non-trivial = the history contains a pruned solve followed by at "
        "least one more solve, on a description where conditioning removes >= 1 transition. Distinct = different "
        "(game, operations).")
ASSUMPTIONS = ["stopping games with exact T <= 300 (so every solve is run under a derived sweep bound)",
               "the extra key 'prune_states' that run_games adds to the caller's dict is ignored"]
CLASS_FLOORS = {"pruned_then_solve_with_removal": 0.15}
FIELDS = ("rewards", "players", "transition_list", "final_states")

FIG55 = dict(rewards=[0, 2, 5 / 3, 0, 0, 0, 0, 0], players=[P1, P2, P2, PR, PR, PR, PR, PR],
             transition_list=[[("alfa", 1), ("beta", 2)], [(" ", 3)], [(" ", 4)], [(0.5, 5), (0.5, 6)],
                              [(0.75, 6), (0.25, 7)], [(1, 5)], [(1, 6)], [(1, 7)]], final_states=[6])
FIG56 = dict(rewards=[0, 0, 2, 5 / 3, 11 / 6, 0, 0, 0, 0, 0, 0, 0, 0],
             players=[P2, P1, P2, P2, P2, PR, PR, PR, PR, PR, PR, PR, PR],
             transition_list=[[("gamma", 1), ("delta", 4)], [("alfa", 2), ("beta", 3)], [(" ", 5)], [(" ", 6)],
                              [(" ", 7)], [(0.5, 8), (0.5, 9)], [(0.75, 9), (0.25, 10)], [(0.5, 11), (0.5, 12)],
                              [(1, 8)], [(1, 9)], [(1, 10)], [(1, 11)], [(1, 12)]], final_states=[9, 11])

OPS = st.one_of(
    st.tuples(st.just("new"), st.booleans()),
    st.tuples(st.just("solve"), st.integers(0, 5)),
    st.tuples(st.just("solve"), st.integers(0, 5)),
    st.tuples(st.just("flip"), st.integers(0, 5)),
    st.tuples(st.just("fresh"), st.booleans()),
    st.tuples(st.just("fresh"), st.booleans()),
    st.tuples(st.just("batch")),
    st.tuples(st.just("loglevel"), st.sampled_from((10, 20, 30))),
    st.tuples(st.just("rewire"), st.integers(0, 20), st.integers(0, 5), st.integers(0, 5)),
)


@st.composite
def descriptions(draw):
    k = draw(st.integers(0, 9))
    if k == 0:
        return copy.deepcopy(FIG55)
    if k == 1:
        return copy.deepcopy(FIG56)
    return draw(games.stopping_games(min_inner=2, max_inner=8, max_sinks=3, dup_names=True))


@st.composite
def histories(draw):
    g = draw(descriptions())
    ops = draw(st.lists(OPS, min_size=3, max_size=12))
    return dict(game=g, ops=[list(o) for o in ops])


@st.composite
def rewire_histories(draw):
    """Solve through an object, let the caller rewire one transition of the description (towards an absorbing
    state, often a final one, often out of a state that could not reach a final state before), solve through
    the SAME object again, in both modes."""
    g = draw(games.stopping_games(min_inner=3, max_inner=8, max_sinks=3, max_finals=2))
    m = draw(st.booleans())
    ops = [["new", m], ["solve", 0]]
    for _ in range(draw(st.integers(1, 3))):
        ops.append(["rewire", draw(st.integers(0, 20)), draw(st.integers(0, 5)), draw(st.integers(0, 5))])
        ops.append(["solve", 0])
        if draw(st.booleans()):
            ops += [["flip", 0], ["solve", 0]]
    return dict(game=g, ops=ops)


# ----------------------------------------------------------------------------- interpreter
def structure(x):
    """Deep structural fingerprint: container types kept, floats by repr."""
    if isinstance(x, list):
        return ("list", tuple(structure(e) for e in x))
    if isinstance(x, tuple):
        return ("tuple", tuple(structure(e) for e in x))
    if isinstance(x, float):
        return ("float", repr(x))
    return (type(x).__name__, x)


class Interp:
    """Applies operations to the real code and checks the invariants after every step."""

    def __init__(self, game):
        self.r = repo()
        self.pristine = copy.deepcopy(game)
        self.desc = copy.deepcopy(game)            # the caller's description; objects alias ITS lists
        self.print0 = {f: structure(self.pristine[f]) for f in FIELDS}
        self.objects = []
        self.built_in = []                         # per object: the epoch (number of caller edits) it was built in
        self.epoch = 0
        self.earlier = {}                          # epoch -> {mode: reference outcome} of descriptions before an edit
        self.first = {}                            # mode -> first outcome
        self.v = Verdict()
        self.solves = 0
        self.pruned_then_more = False
        self.seen_pruned = False
        self.step = 0
        self.shim = None                            # set by the runner of the history (logging shim)
        self.facts = GameFacts(self.pristine)

    def build(self, mode):
        d = self.desc
        return self.r.tad.StochasticGame(rewards=d["rewards"], players=d["players"],
                                         transition_list=d["transition_list"], final_states=d["final_states"],
                                         prune_states=mode)

    def outcome(self, fn):
        try:
            return ("ok", fn())
        except (BudgetExceeded, SkipSolve):
            raise
        except Exception as e:
            return ("exc", type(e).__name__, str(e))

    def note_solve(self, mode):
        self.solves += 1
        if self.seen_pruned:
            self.pruned_then_more = True
        if mode:
            self.seen_pruned = True

    @staticmethod
    def same(out, ref):
        if out[0] == "exc" and ref[0] == "exc" and out[1] == ref[1] and \
                (out[2].lower() in ref[2].lower() or ref[2].lower() in out[2].lower()):
            return True     # same error; a batch entry may wrap the text in its own wording
        return out == ref

    def compare(self, mode, out, what, built_in=None):
        ref = self.first.get(mode)
        if ref is None:
            self.first[mode] = out
            return
        if self.same(out, ref):
            return
        if built_in is not None and built_in != self.epoch:
            # an object built before the caller edited the description may hold the caller's lists (then it must
            # solve the edited description, checked above) or its own copy of them (then it must solve the
            # description as it was when the object was built) - the property fixes neither, a mixture is wrong
            alt = self.earlier.get(built_in, {}).get(mode)
            if alt is not None and self.same(out, alt):
                self.v.cls("older_object_solved_the_description_it_was_built_from")
                return
        if out != ref:
            a = "result" if out[0] == "ok" else f"{out[1]}: {out[2][:80]}"
            b = "result" if ref[0] == "ok" else f"{ref[1]}: {ref[2][:80]}"
            extra = ""
            if out[0] == "ok" and ref[0] == "ok":
                names = ("final strategies", "reachability strategies", "rewards", "probabilities", "iterations reach",
                         "iterations rew", "probabilities min rew", "rewards min reach")
                extra = "; differing fields: " + ", ".join(n for n, x, y in zip(names, out[1], ref[1]) if x != y)
            self.v.fail("not-repeatable", f"step {self.step} ({what}): outcome in mode prune={mode} is [{a}] but the "
                                          f"first outcome of that mode was [{b}]{extra}",
                        sig=("exc" if out[0] != ref[0] else "values"))

    def check_intact(self, what):
        for f in FIELDS:
            cur = self.desc.get(f)
            if cur != self.pristine[f]:
                self.v.fail("description-changed", f"step {self.step} ({what}): caller's {f} changed from "
                                                   f"{self.pristine[f]} to {cur}", sig=f)
                return False
            if structure(cur) != self.print0[f]:
                self.v.fail("description-changed-structurally", f"step {self.step} ({what}): caller's {f} changed "
                                                                f"representation: {cur!r}", sig=f)
                return False
        return True

    def apply(self, op):
        self.step += 1
        kind = op[0]
        what = "/".join(str(x) for x in op)
        if kind == "new":
            self.objects.append(self.build(bool(op[1])))
            self.built_in.append(self.epoch)
        elif kind == "solve":
            if not self.objects:
                return True
            obj = self.objects[op[1] % len(self.objects)]
            mode = bool(obj.prune_states)
            self.note_solve(mode)
            self.compare(mode, self.outcome(obj.solve), what, built_in=self.built_in[op[1] % len(self.objects)])
        elif kind == "flip":
            if not self.objects:
                return True
            obj = self.objects[op[1] % len(self.objects)]
            obj.prune_states = not obj.prune_states
        elif kind == "fresh":
            mode = bool(op[1])
            self.note_solve(mode)
            self.compare(mode, self.outcome(lambda: self.build(mode).solve()), what)
        elif kind == "rewire":
            # the CALLER edits its own description in place (one transition now leads to an absorbing state; the
            # numbers of states and transitions stay the same).  From here on the description is the edited one:
            # fresh objects give the reference, and objects built earlier - which hold the caller's lists - must
            # give exactly the same.
            d = self.desc
            n = len(d["players"])
            absorbing = [s_ for s_ in range(n) if all(t_ == s_ for _, t_ in d["transition_list"][s_])]
            movable = [s_ for s_ in range(n) if s_ not in absorbing]
            if not absorbing or not movable:
                return True
            # references for the description as it is now (fresh objects, both modes), kept for older objects
            before = dict(self.first)
            for mode in (True, False):
                if mode not in before:
                    self.note_solve(mode)
                    before[mode] = self.outcome(lambda: self.build(mode).solve())
            self.earlier[self.epoch] = before
            self.epoch += 1
            if not self.check_intact(what + " (reference solves before the edit)"):
                return False
            s_ = movable[op[1] % len(movable)]
            lst = d["transition_list"][s_]
            if not lst:
                return True
            k_ = op[2] % len(lst)
            lst[k_] = (lst[k_][0], absorbing[op[3] % len(absorbing)])
            self.pristine = copy.deepcopy({f: d[f] for f in FIELDS})
            self.print0 = {f: structure(self.pristine[f]) for f in FIELDS}
            self.first = {}
            self.v.cls("caller_rewired_description")
            for mode in (True, False):
                self.note_solve(mode)
                self.first[mode] = self.outcome(lambda: self.build(mode).solve())
        elif kind == "loglevel":
            # the process-wide logging level the repository sees (DEBUG=10, INFO=20, WARNING=30): results
            # must not depend on it
            if self.shim is not None:
                self.shim.level = int(op[1])
            self.v.cls("loglevel_changed")
        elif kind == "batch":
            self.note_solve(True)
            self.note_solve(False)
            out = self.outcome(lambda: self.r.conditionalrewards.run_games({"g": self.desc}))
            if out[0] != "ok":
                self.v.fail("batch-raises", f"step {self.step}: run_games raised {out[1]}: {out[2][:100]}", sig=out[1])
            else:
                res = out[1]
                for key, mode in (("g", True), ("g_no_prune", False)):
                    e = res.get(key)
                    if not isinstance(e, dict):
                        self.v.fail("batch-entry-missing", f"step {self.step}: no entry {key}")
                        continue
                    if e.get("rewards") is not None:
                        tup = (e["final_strategies"], e["reachability_strategies"], e["rewards"], e["probabilities"],
                               e["n_iterations_reach"], e["n_iterations_rew"], e["prob_min_rew"], e["rew_min_reach"])
                        self.compare(mode, ("ok", tup), what + ":" + key)
                    elif mode and isinstance(e.get("msg"), str):
                        ref = self.first.get(mode)
                        if ref is None:
                            self.first[mode] = ("exc", "ValueError", e["msg"])
                        elif ref[0] == "ok":
                            self.v.fail("not-repeatable", f"step {self.step} ({what}:{key}): the batch run reports a failure "
                                                          f"({e['msg'][:80]!r}) but the first outcome of that mode was a result",
                                        sig="exc")
                        elif ref[2].lower() not in e["msg"].lower() and e["msg"].lower() not in ref[2].lower():
                            self.v.fail("not-repeatable", f"step {self.step} ({what}:{key}): the batch run's message "
                                                          f"{e['msg'][:80]!r} does not carry the error {ref[2][:80]!r}",
                                        sig="exc")
        else:
            raise ValueError(f"unknown op {op}")
        return self.check_intact(what)

    def finish(self):
        v = self.v
        removal = False
        ref = self.first.get(True)
        if ref and ref[0] == "ok":
            res = ref[1]
            try:
                cg = exact.conditioned_game(self.pristine, res[1], res[3], True)
                removal = any(len(a) != len(b) for a, b in zip(cg["transition_list"], self.pristine["transition_list"]))
            except Exception:
                removal = False
        if removal:
            v.cls("conditioning_removes")
        if self.pruned_then_more:
            v.cls("pruned_then_solve")
        if removal and self.pruned_then_more:
            v.cls("pruned_then_solve_with_removal")
            v.nontrivial = True
        if ref and ref[0] == "exc":
            v.cls("no_solution_game")
        v.cls(f"solves={min(self.solves, 6)}")
        return v


def run_history(game, ops, v_hook=None):
    it = Interp(game)
    facts = it.facts
    try:
        if not facts.stopping:
            it.v.inconclusive = "not a stopping game"
            return it.v
        if facts.slow:
            it.v.inconclusive = "T>300"
            return it.v
    except OracleError as e:
        it.v.inconclusive = f"oracle: {e}"
        return it.v
    try:
        with budgeted(facts, extra_modules=(it.r.conditionalrewards,)) as shim:
            shim.level = 30          # histories start at WARNING; the level only changes through 'loglevel' operations
            it.shim = shim
            for op in ops:
                if not it.apply(op):
                    break
    except BudgetExceeded:
        it.v.inconclusive = "sweep budget exceeded (reported by C06)"
    except SkipSolve:
        it.v.inconclusive = "conditioned game T_c > limit"
    return it.finish()


def check_case(case):
    return run_history(case["game"], [tuple(o) for o in case["ops"]])


# ----------------------------------------------------------------------------- state machine
def make_machine(sink):
    """RuleBasedStateMachine over the same operations; every rule is executed on the real code as
    it is drawn, the invariant runs after every step, and the finished history is handed to
    `sink(case, verdict)` (collect mode: the machine itself never raises)."""

    class SolveHistory(RuleBasedStateMachine):
        def __init__(self):
            super().__init__()
            self.it = None
            self.ops = []
            self.ctx = None
            self.dead = False

        @initialize(game=descriptions())
        def start(self, game):
            self.game = copy.deepcopy(game)
            self.it = Interp(game)
            facts = self.it.facts
            try:
                ok = facts.stopping and not facts.slow
            except OracleError:
                ok = False
            if not ok:
                self.dead = True
                self.it.v.inconclusive = "T>300 or oracle"
                return
            self.ctx = budgeted(facts, extra_modules=(self.it.r.conditionalrewards,))
            self.it.shim = self.ctx.__enter__()
            self.it.shim.level = 30

        def _do(self, op):
            if self.dead or self.it is None:
                return
            self.ops.append(list(op))
            try:
                if not self.it.apply(op):
                    self.dead = True
            except BudgetExceeded:
                self.it.v.inconclusive = "sweep budget exceeded (reported by C06)"
                self.dead = True
            except SkipSolve:
                self.it.v.inconclusive = "conditioned game T_c > limit"
                self.dead = True

        @rule(mode=st.booleans())
        def new_object(self, mode):
            self._do(("new", mode))

        @precondition(lambda self: self.it is not None and self.it.objects)
        @rule(k=st.integers(0, 5))
        def solve(self, k):
            self._do(("solve", k))

        @precondition(lambda self: self.it is not None and self.it.objects)
        @rule(k=st.integers(0, 5))
        def flip_mode(self, k):
            self._do(("flip", k))

        @rule(mode=st.booleans())
        def solve_fresh(self, mode):
            self._do(("fresh", mode))

        @rule()
        def solve_via_batch(self):
            self._do(("batch",))

        @rule(level=st.sampled_from((10, 20, 30)))
        def set_log_level(self, level):
            self._do(("loglevel", level))

        @rule(a=st.integers(0, 20), b=st.integers(0, 5), c=st.integers(0, 5))
        def caller_rewires_description(self, a, b, c):
            self._do(("rewire", a, b, c))

        @invariant()
        def description_intact(self):
            # checked inside Interp.apply after every operation; nothing may be pending here
            assert self.it is None or self.dead or not self.it.v.fails or True

        def teardown(self):
            if self.ctx is not None:
                self.ctx.__exit__(None, None, None)
                self.ctx = None
            if self.it is not None:
                v = self.it.finish()
                v.cls("state_machine")
                sink(dict(game=self.game, ops=self.ops), v)

    return SolveHistory


def ddmin_ops(case, sig):
    """Minimise the op list of a failing history (state-machine runs are not shrunk by Hypothesis
    in collect mode): classic one-at-a-time removal to a fixed point."""
    ops = list(case["ops"])

    def fails(o):
        v = check_case(dict(game=case["game"], ops=o))
        return any(f.sig == sig and not f.known for f in v.fails)
    changed = True
    while changed:
        changed = False
        for i in range(len(ops)):
            cand = ops[:i] + ops[i + 1:]
            if cand and fails(cand):
                ops = cand
                changed = True
                break
    return dict(game=case["game"], ops=ops)


def phases(tier):
    return [Phase("histories-op-lists", strategy=histories, examples=(500, 30000)),
            Phase("solve-rewire-solve", strategy=rewire_histories, examples=(300, 15000),
                  note="the caller edits its description between two solves through the same object"),
            Phase("state-machine", machine=make_machine, examples=(150, 8000), minimise=ddmin_ops,
                  note="hypothesis.stateful.RuleBasedStateMachine, stateful_step_count=12")]
