"""C03 - conditioning removes every dead branch, and only dead branches.

Observed through the post-conditioning node lists, by three routes:
  component : init_states -> Solver.solve_reachability -> prune_reachability ->
              prune_stochastich_game, then read Node.next_states;
  assigned  : as above but the reachability outcome (per-state values and
              strategies) is assigned by the harness from the exact oracle;
  pipeline  : StochasticGame.solve() with Solver.solve_total_rewards wrapped at
              run time to snapshot Node.next_states just before rewards are solved.
Oracle (REF): list-level model of conditioning computed from the ORIGINAL lists,
the reported probabilities and the reported strategies.
"""
import itertools

from hypothesis import strategies as st

from harness import exact, games
from harness.budget import BudgetExceeded, sweep_budget
from harness.games import P1, P2, PR, copy_game
from harness.load import repo
from harness.runner import Phase, Verdict

ID = "C03"
LEVEL = "exploration"
TECHNIQUE = ("exhaustive enumeration of dead/live successor patterns (lists of 1-5) + property-based testing "
             "(Hypothesis) on random games, against a list-level reference model of conditioning")
LEVEL_TEXT = ("Exhaustive core: every dead/live pattern of every list length 1-5, for probabilistic and Player 1 "
              "states, two weight vectors, distinct and shared dead targets (496 embedded games, all enumerated). "
              "Beyond the core: thousands of generated stopping and arbitrary games through three observation routes. "
              "Each post-conditioning list is compared entry by entry with a reference model. Exploration with an "
              "exhaustive finite core is the right level: the pattern space the property text singles out is finite "
              "and small, the space of games around it is not."
              ' Added while validating sensitivity: tiny positive values and subnormal live masses, repeated (probability, successor) entries next to dead ones, zero-probability entries, and (a quarter of the random cases) an earlier conditioning of the very same list objects on other targets.')
LEVEL_NOTE = ("Trusted: the list-level model in props/c03.py (filter + renormalise, ~30 lines), the run-time wrapper "
              "that snapshots Node.next_states. Dead = reported probability exactly 0, as the statement says; "
              "probabilities compared with relative tolerance 1e-12.")
RULE = ("case = (game, route). Core: enumerated patterns in {dead,live}^m, m=1..5, x owner in {Probabilistic, Player 1} "
        "x 2 weight vectors x {distinct dead targets, one shared dead target}, embedded under a probabilistic "
        "initial state. Random: constructed stopping games (3 routes) and arbitrary games (component route). "
        "Non-trivial = some Player 1 / probabilistic list holds >= 2 successors reported with probability 0 "
        "(classified adjacent / separated / first / last / all). Distinct = different (game, route).")
ASSUMPTIONS = ["'probability 0' is the reported float compared with == 0, as in the statement",
               "states that are not reachable from state 0 after conditioning are only held to the "
               "'no transition into a dead state' clause (the solver may legitimately clear them)"]
CLASS_FLOORS = {"dead>=2": 0.05}

W_DYADIC = {1: [1], 2: [0.5, 0.5], 3: [0.25, 0.25, 0.5], 4: [0.125, 0.125, 0.25, 0.5],
            5: [0.125, 0.125, 0.25, 0.25, 0.25]}
W_ODD = {1: [1], 2: [0.3, 0.7], 3: [0.2, 0.3, 0.5], 4: [0.1, 0.2, 0.3, 0.4], 5: [0.1, 0.15, 0.2, 0.25, 0.3]}


# ----------------------------------------------------------------------------- exhaustive core
def core_game(owner, pattern, weights, shared_dead):
    """State 0: probabilistic initial state -> X (state 1) and the final F (state 2).
    X has len(pattern) successors: live ones are distinct probabilistic states worth 1/2,
    dead ones are distinct sinks (or one shared sink)."""
    m = len(pattern)
    players = [PR, owner, PR]
    tl = [[(0.5, 1), (0.5, 2)], None, [(1, 2)]]
    rew = [0, 1, 0]
    succ = []
    shared = None
    for live in pattern:
        idx = len(players)
        if live:
            players.append(PR)
            tl.append(None)          # filled below once the common sink exists
            rew.append(2)
            succ.append(idx)
        else:
            if shared_dead and shared is not None:
                succ.append(shared)
                continue
            players.append(PR)
            tl.append([(1, idx)])
            rew.append(0)
            succ.append(idx)
            if shared_dead:
                shared = idx
    sink = len(players)
    players.append(PR)
    tl.append([(1, sink)])
    rew.append(0)
    for i in range(len(tl)):
        if tl[i] is None and i != 1:
            tl[i] = [(0.5, 2), (0.5, sink)]
    if owner == PR:
        tl[1] = [(w, t) for w, t in zip(weights[m], succ)]
    else:
        tl[1] = [(games.NAMES[i], t) for i, t in enumerate(succ)]
    return dict(rewards=rew, players=players, transition_list=tl, final_states=[2])


def core_cases():
    for owner in (PR, P1):
        for m in range(1, 6):
            for pattern in itertools.product((0, 1), repeat=m):
                for wname, weights in (("dyadic", W_DYADIC), ("odd", W_ODD)):
                    for shared in (False, True):
                        g = core_game(owner, pattern, weights, shared)
                        for route in ("component", "pipeline"):
                            yield dict(game=g, route=route)


@st.composite
def random_cases(draw):
    kind = draw(st.sampled_from(("stopping", "stopping", "stopping", "any")))
    if kind == "any":
        g = draw(games.any_games(max_states=8))
        route = "component"
    else:
        g = draw(games.stopping_games(min_inner=2, max_inner=9, max_sinks=3, dup_names=True, zero_edges=True))
        route = draw(st.sampled_from(("component", "pipeline", "assigned")))
    case = dict(game=g, route=route)
    if draw(st.integers(0, 3)) == 0:
        # the caller conditioned the same description on other targets before (same list objects)
        n = len(g["players"])
        case["earlier_finals"] = draw(st.lists(st.integers(0, n - 1), min_size=1, max_size=2, unique=True))
    return case


def tiny_cases():
    for g in list(games.tiny_reach_games()) + list(games.dup_edge_games()):
        for route in ("component", "pipeline", "assigned"):
            yield dict(game=g, route=route)


def phases(tier):
    return [
        Phase("tiny-positive-reach-values", enum=tiny_cases,
              note="successors worth 1e-9..1e-6 are not dead and must be kept"),
        Phase("pattern-core", enum=core_cases, exhaustive=True,
              note="all dead/live patterns of lists of length 1-5, 2 owners, 2 weight vectors, distinct/shared dead"),
        Phase("random-games", strategy=random_cases, examples=(3000, 120000)),
    ]


# ----------------------------------------------------------------------------- observation routes
def observe(case):
    """Returns (lists, probabilities, strategies) or ('skip', reason) or ('raise', exception)."""
    r = repo()
    tad = r.tad
    game = case["game"]
    route = case["route"]
    n = len(game["players"])
    g = copy_game(game)
    if case.get("earlier_finals"):
        # an earlier conditioning through the very same rewards / players / transition-list objects, other targets
        # (reachability + conditioning only: the reward solve that would follow is not this property's business)
        e = dict(g, final_states=list(case["earlier_finals"]))
        try:
            with sweep_budget(tad, 200000, n):
                sg0 = tad.StochasticGame(**e)
                sg0.check_game()
                solver0 = tad.Solver(state_list=sg0.init_states(), threshold=10 ** (-6))
                strategies0, _ = solver0.solve_reachability(e["transition_list"], e["final_states"], False)
                solver0.prune_reachability(strategies0)
                solver0.prune_stochastich_game()
        except BudgetExceeded:
            return ("skip", "budget in the earlier conditioning")
        except Exception:
            pass
    if route in ("component", "assigned"):
        with sweep_budget(tad, None, None):
            sg = tad.StochasticGame(**g)
            sg.check_game()
            state_list = sg.init_states()
            solver = tad.Solver(state_list=state_list, threshold=10 ** (-6))
            if route == "component":
                strategies, _ = solver.solve_reachability(g["transition_list"], g["final_states"], False)
            else:
                vals = exact.reach_values_stopping(game)
                strategies = [None] * n
                for s in range(n):
                    state_list[s].reach_probability = float(vals[s]) if vals[s] not in (0, 1) else int(vals[s])
                    if game["players"][s] != PR:
                        pick = max if game["players"][s] == P1 else min
                        best = pick(vals[t] for _, t in game["transition_list"][s])
                        strategies[s] = [a for a, t in game["transition_list"][s] if vals[t] == best]
            probs = [st_.reach_probability for st_ in state_list]
            solver.prune_reachability(strategies)
            solver.prune_stochastich_game()
            return [list(st_.next_states) for st_ in state_list], probs, strategies
    # pipeline
    snap = {}
    orig = tad.Solver.solve_total_rewards

    class _Enough(BaseException):
        pass

    def wrapped(self):
        # conditioning is finished when the reward solve starts: snapshot the lists and stop there
        snap["lists"] = [list(st_.next_states) for st_ in self.state_list]
        snap["probs"] = [st_.reach_probability for st_ in self.state_list]
        raise _Enough()
    tad.Solver.solve_total_rewards = wrapped
    try:
        with sweep_budget(tad, 200000, n):
            strat_box = {}
            orig_prune = tad.Solver.prune_reachability

            def spy_prune(self, strategies):
                strat_box["s"] = strategies
                return orig_prune(self, strategies)
            tad.Solver.prune_reachability = spy_prune
            try:
                tad.StochasticGame(prune_states=True, **g).solve()
                return ("skip", "solve_total_rewards was not reached")
            except _Enough:
                pass
            except BudgetExceeded:
                return ("skip", "budget before conditioning")
            finally:
                tad.Solver.prune_reachability = orig_prune
    finally:
        tad.Solver.solve_total_rewards = orig
    if "s" not in strat_box:
        return ("skip", "prune_reachability was not called")
    return snap["lists"], snap["probs"], strat_box["s"]


def model_lists(game, probs, strategies):
    out = []
    for s, (pl, lst) in enumerate(zip(game["players"], game["transition_list"])):
        if pl == P2:
            out.append(list(lst))
        elif pl == P1:
            out.append([(a, t) for a, t in lst if a in strategies[s] and probs[t] != 0])
        else:
            live = [(p, t) for p, t in lst if probs[t] != 0]
            tot = sum(p for p, _ in live)
            if len(live) < len(lst) and tot == 0:
                out.append(None)      # only zero-probability transitions survive: representation not prescribed
            else:
                out.append([(p / tot, t) for p, t in live] if len(live) < len(lst) else live)
    return out


def dead_classes(game, probs, strategies):
    cls = set()
    worst = 0
    for s, (pl, lst) in enumerate(zip(game["players"], game["transition_list"])):
        if pl == P2:
            continue
        if pl == P1:
            lst = [(a, t) for a, t in lst if a in strategies[s]]
        pat = [probs[t] == 0 for _, t in lst]
        k = sum(pat)
        worst = max(worst, k)
        if k >= 2:
            pos = [i for i, d in enumerate(pat) if d]
            cls.add("dead>=2")
            cls.add("dead_adjacent" if any(b - a == 1 for a, b in zip(pos, pos[1:])) else "dead_separated_only")
            if any(b - a > 1 for a, b in zip(pos, pos[1:])):
                cls.add("dead_separated")
            if pat[0]:
                cls.add("dead_first")
            if pat[-1]:
                cls.add("dead_last")
            if k == len(pat):
                cls.add("dead_all")
            cls.add("dead>=2_" + ("P1" if pl == P1 else "prob"))
    return cls, worst


def check_case(case):
    v = Verdict()
    game = case["game"]
    n = len(game["players"])
    v.cls("route_" + case["route"])
    if case.get("earlier_finals"):
        v.cls("after_an_earlier_conditioning_of_the_same_lists")
    try:
        obs = observe(case)
    except BudgetExceeded:
        raise
    except Exception as e:
        if case["route"] == "pipeline" and isinstance(e, ValueError) and "no solution" in str(e).lower():
            v.cls("no_solution_skipped")
            return v
        from harness.sut import innermost_repo_frame
        v.nontrivial = True
        v.fail("conditioning-raises", f"{type(e).__name__}: {str(e)[:120]} (route {case['route']})",
               sig=f"{type(e).__name__}@{innermost_repo_frame(e)}")
        return v
    if obs[0] == "skip":
        v.inconclusive = obs[1]
        return v
    if obs[0] == "budget":
        v.inconclusive = "reward iteration exceeded the sweep budget (lists were captured before it)"
        return v
    lists, probs, strategies = obs
    cls, worst = dead_classes(game, probs, strategies)
    v.cls(*sorted(cls))
    v.cls(f"max_dead_in_list={min(worst, 4)}")
    v.nontrivial = worst >= 2
    want = model_lists(game, probs, strategies)
    # reachable from 0 in the model's conditioned game
    reach = {0}
    stack = [0]
    while stack:
        s = stack.pop()
        for _, t in (want[s] or []):
            if t not in reach:
                reach.add(t)
                stack.append(t)
    for s in range(n):
        pl = game["players"][s]
        got = lists[s]
        if pl in (P1, PR):
            kept_dead = [t for _, t in got if probs[t] == 0]
            if kept_dead:
                v.fail("dead-branch-kept", f"state {s} ({pl}) keeps transition(s) into probability-0 state(s) "
                                           f"{kept_dead}; original list {game['transition_list'][s]}, now {got}",
                       sig=pl)
                continue
        if s not in reach:
            continue
        if pl == P2:
            if got != list(game["transition_list"][s]):
                v.fail("player2-list-changed", f"state {s}: {game['transition_list'][s]} became {got}")
            continue
        exp = want[s]
        if exp is None:
            continue
        if [t for _, t in got] != [t for _, t in exp]:
            v.fail("live-branch-lost-or-moved", f"state {s} ({pl}): expected targets {[t for _, t in exp]} "
                                                f"got {[t for _, t in got]} (original {game['transition_list'][s]})",
                   sig=pl)
            continue
        if pl == P1:
            if [a for a, _ in got] != [a for a, _ in exp]:
                v.fail("player1-actions-changed", f"state {s}: expected {exp} got {got}")
            continue
        bad = [(a, b) for (a, _), (b, _) in zip(got, exp) if abs(a - b) > 1e-12 * max(1.0, abs(b))]
        if bad:
            v.fail("wrong-renormalisation", f"state {s}: expected {exp} got {got} "
                                            f"(original {game['transition_list'][s]})")
        elif got and abs(sum(p for p, _ in got) - 1) > 1e-12 and \
                abs(sum(p for p, _ in game["transition_list"][s]) - 1) <= 1e-12:
            v.fail("probabilities-do-not-sum-to-1", f"state {s}: {got}")
    return v


def sample_view(case):
    return case
