"""C07 - backward search returns exactly the states that can reach a final state.

Generated: digraphs as transition lists (self-loops, parallel edges, unreachable
parts, cycles), deep shapes (chains, combs, in-trees, ladders to thousands of
states), generator boards; final sets non-empty, any order, with repetitions.
Oracle (REF): set-based BFS over reversed edges + Counter of reversed edges.
"""
import collections
import os
import shutil
import tempfile

from hypothesis import strategies as st

from harness.load import repo
from harness.runner import Phase, Verdict

ID = "C07"
LEVEL = "exploration"
TECHNIQUE = ("property-based testing (Hypothesis) + enumerated deep shapes + coverage-guided fuzzing (atheris/libFuzzer) "
             "against a set-based BFS reference")
RULE = ("cases = (transition list, final list); random digraphs of 1-40 states (0-4 successors per state, "
        "self-loops and parallel edges allowed), finals drawn with repetitions in any order; plus enumerated "
        "deep shapes (chain, comb, binary in-tree, ladder, cycle-with-tail) and generator boards. "
        "Non-trivial = a returned state is reachable backwards along >= 2 different edges (diamond or "
        "self-loop), or the graph is deeper than 900, or >= 2 distinct finals. Distinct = different "
        "(transition list, final list).")
LEVEL_TEXT = ("Generated-input search: thousands of random digraphs plus enumerated deep shapes (to depth 5000 in the "
              "thorough tier) and generator boards, each compared with an independent set-based BFS and an edge "
              "Counter. Exploration is the right level: the domain (all digraphs) is infinite and the oracle is exact, "
              "so every explored case is decided, but nothing is claimed beyond what was generated."
              ' Added while validating sensitivity: hubs and parallel edges with 70 000 - 1 100 000 entries waiting at once, chains of 150 000 - 1 200 000 states, layered graphs; an atheris (libFuzzer) campaign with the oracle inside the target.'
              ' Later rounds: transition labels drawn from action names, integer ids and probabilities including 0, 0.0, -0.0, None and the empty string; boards whose tiles, robot or light never or always break.')
LEVEL_NOTE = ("Trusted: the 20-line BFS reference in props/c07.py, Hypothesis' generators. Assumes every listed transition is an edge "
              "whatever its label and that the harness leaves the interpreter recursion limit at its default.")
ASSUMPTIONS = ["every listed transition is an edge whatever its label (labels are drawn from action names, integer ids and probabilities incl. 0, 0.0, None)",
               "the interpreter's default recursion limit is left untouched by the harness"]
CLASS_FLOORS = {"multi_pred": 0.3}


# ----------------------------------------------------------------------------- generators
# what a transition's first component can be in a legal game: an action name, an integer action id, or a
# probability (including the degenerate 0 / 0.0 / 1 of a board whose tiles never or always break)
LABELS = ["x", "a", "", "Down", 0, 1, 2, -1, 0.0, 1.0, 0.5, 0.25, 1e-300, -0.0, True, False, None]


@st.composite
def graphs(draw):
    n = draw(st.integers(1, 40))
    dense = draw(st.integers(0, 3))
    kmax = (1, 2, 4, 6)[dense]
    pool = draw(st.sampled_from([["x"], LABELS, [0, 0.0, 1, "x"], [0.0], [0]]))
    tl = []
    for s in range(n):
        k = draw(st.integers(0, kmax))
        tl.append([(draw(st.sampled_from(pool)), draw(st.integers(0, n - 1))) for _ in range(k)])
    nf = draw(st.integers(1, min(4, n)))
    finals = [draw(st.integers(0, n - 1)) for _ in range(nf)]
    if draw(st.booleans()):
        finals = finals + [draw(st.sampled_from(finals))]
    return dict(tl=tl, finals=finals)


def chain(d):            # 0 -> 1 -> ... -> d (final d)
    return dict(tl=[[("x", i + 1)] for i in range(d)] + [[("x", d)]], finals=[d])


def rchain(d):           # d -> d-1 -> ... -> 0 (final 0): the search walks upwards in numbering
    return dict(tl=[[("x", 0)]] + [[("x", i - 1)] for i in range(1, d + 1)], finals=[0])


def comb(d):             # spine 0..d, each spine state also has a tooth that cannot reach the final
    tl = []
    for i in range(d):
        tl.append([("x", i + 1), ("y", d + 1 + i)])
    tl.append([("x", d)])
    for i in range(d):
        tl.append([("x", d + 1 + i)])
    return dict(tl=tl, finals=[d])


def ladder(d):           # two rails with rungs: every state has two predecessors on paths
    tl = []
    for i in range(d):
        a, b = 2 * i, 2 * i + 1
        tl.append([("x", a + 2), ("y", b + 2)])
        tl.append([("x", b + 2), ("y", a + 2)])
    tl.append([("x", 2 * d)])
    tl.append([("x", 2 * d)])
    return dict(tl=tl, finals=[2 * d, 2 * d])


def intree(depth):       # complete binary in-tree: children point to the parent, root final
    n = 2 ** (depth + 1) - 1
    return dict(tl=[[("x", 0)]] + [[("x", (i - 1) // 2)] for i in range(1, n)], finals=[0])


def cycle_tail(d):       # a cycle of d states with a tail to the final, and a tail out of the final
    tl = [[("x", (i + 1) % d)] for i in range(d)]
    tl[d // 2] = [("x", (d // 2 + 1) % d), ("y", d)]
    tl.append([("x", d + 1)])
    tl.append([("x", d + 1)])
    return dict(tl=tl, finals=[d])


def hub(k, parallel=False):
    """k sources pointing at one state that points at the final (or one source with k parallel edges):
    the search has k entries waiting at once."""
    if parallel:
        return dict(tl=[[("x", 1)] * k, [("x", 2)], [("x", 2)]], finals=[2, 2], shape=f"parallel-{k}")
    tl = [[("x", k)] for _ in range(k)] + [[("x", k + 1)], [("x", k + 1)]]
    return dict(tl=tl, finals=[k + 1], shape=f"hub-{k}")


def layered(width, depth):
    """depth layers of `width` states, every state points to two states of the next layer."""
    tl = []
    for d in range(depth):
        for i in range(width):
            nxt = (d + 1) * width
            tl.append([("x", nxt + i), ("y", nxt + (i + 1) % width)] if d + 1 < depth else [("x", depth * width)])
    tl.append([("x", depth * width)])
    return dict(tl=tl, finals=[depth * width], shape=f"layered-{width}x{depth}")


def board_case(length, width, seed, probs=(0.1, 0.1, 0.1), game="game_c"):
    r = repo()
    rg = r.roberta_generator
    moves, rewards, loose = rg.gen_rnd_board(seed, length, width, 0.3, 6, True)
    d = tempfile.mkdtemp(prefix="c07_")
    path = os.path.join(d, "b.py")
    try:
        rg.write_robots(path, length, width, moves, rewards, loose, *probs)
        games = r.conditionalrewards.read_dict_from_file(path)
    finally:
        shutil.rmtree(d, ignore_errors=True)
    g = games[game]
    return dict(tl=g["transition_list"], finals=g["final_states"], board=[length, width, seed, list(probs), game])


def deep_cases(tier):
    depths = [10, 100, 600, 950, 1100, 2500] if tier == "quick" else [10, 100, 600, 950, 1100, 2500, 5000]
    def gen():
        for d in depths:
            yield chain(d)
            yield rchain(d)
            yield comb(d)
            yield ladder(d)
            yield cycle_tail(max(2, d))
        for depth in ((3, 8) if tier == "quick" else (3, 8, 12)):
            yield intree(depth)
        # more entries waiting at once than 2^16 / 2^17 (work-list compaction, caches), long chains beyond 10^5
        for k in ((70000, 140000) if tier == "quick" else (70000, 140000, 300000, 1100000)):
            yield hub(k)
            yield hub(k, parallel=True)
        yield chain(150000)
        yield layered(300, 250)
        if tier != "quick":
            yield chain(1200000)
            yield intree(17)
        boards = [(2, 2, 1), (3, 60, 2)] if tier == "quick" else [(2, 2, 1), (3, 60, 2), (3, 400, 3), (40, 10, 4)]
        for (w, l, s) in boards:
            yield board_case(l, w, s)
        # boards whose tiles / robot / light never or always break: transitions labelled 0, 0.0 and 1
        for probs in ((1, 0.1, 0.1), (0.0, 0.0, 0.0), (0.5, 1, 0), (1.0, 1.0, 1.0)):
            for game in ("game_a", "game_b", "game_c"):
                yield board_case(3, 3, 5, probs, game)
    return gen


def phases(tier):
    return [
        Phase("deep-shapes", enum=deep_cases(tier), note="chains/combs/ladders/in-trees/cycles/boards"),
        Phase("random-graphs", strategy=graphs, examples=(2500, 60000)),
    ]


def sample_view(case):
    tl = case["tl"]
    if len(tl) > 12 or any(len(l) > 12 for l in tl):
        return dict(n_states=len(tl), finals=case["finals"], first_states=[l[:4] for l in tl[:4]],
                    note="large case abbreviated", board=case.get("board"), shape=case.get("shape"))
    return case


# ----------------------------------------------------------------------------- oracle
def ref_backward(tl, finals):
    n = len(tl)
    pred = [set() for _ in range(n)]
    for u, lst in enumerate(tl):
        for _, v in lst:
            pred[v].add(u)
    seen = set(finals)
    frontier = list(seen)
    depth = 0
    while frontier:
        nxt = []
        for v in frontier:
            for u in pred[v]:
                if u not in seen:
                    seen.add(u)
                    nxt.append(u)
        if nxt:
            depth += 1
        frontier = nxt
    return seen, depth


def check_case(case):
    r = repo()
    tl = [list(l) for l in case["tl"]]
    finals = list(case["finals"])
    v = Verdict()
    n = len(tl)
    if n > 12 or any(len(l) > 12 for l in tl):
        v.key = dict(n=n, finals=finals, h=__import__('hashlib').sha1(str(tl).encode()).hexdigest())
    seen, depth = ref_backward(tl, finals)
    expect = sorted(seen - set(finals))
    # non-trivial?
    multi = False
    for u in expect:
        live_succ = [t for _, t in tl[u] if t in seen]
        if len(live_succ) >= 2:
            multi = True
            break
    if multi:
        v.cls("multi_pred")
    if depth > 900:
        v.cls("deep>900")
    if len(set(finals)) >= 2:
        v.cls("multi_final")
    if len(finals) != len(set(finals)):
        v.cls("repeated_final")
    if any(t == u for u in expect for _, t in tl[u]):
        v.cls("self_loop")
    if len(seen) < n:
        v.cls("has_unreaching_states")
    if any((lab == 0 or lab is None) and not isinstance(lab, str) for u in expect for lab, _ in tl[u]):
        v.cls("zero_or_none_label_on_reaching_state")
    v.nontrivial = multi or depth > 900 or len(set(finals)) >= 2

    # clause 1: the search
    try:
        got = r.reverse_dfs.reverse_dfs(tl, finals)
    except BaseException as e:
        if isinstance(e, (KeyboardInterrupt, SystemExit)):
            raise
        v.fail("search-raises", f"{type(e).__name__}: {str(e)[:120]} on n={n} depth={depth}", sig=type(e).__name__)
        got = None
    if got is not None:
        if not isinstance(got, list):
            v.fail("search-not-list", f"returned {type(got).__name__}")
        else:
            if sorted(set(got)) != expect:
                missing = sorted(set(expect) - set(got))[:5]
                extra = sorted(set(got) - set(expect))[:5]
                v.fail("search-wrong-set", f"missing={missing} extra={extra} n={n}",
                       sig="missing" if missing else "extra")
            elif len(got) != len(set(got)):
                dup = [s for s, c in collections.Counter(got).items() if c > 1][:5]
                v.fail("search-duplicates", f"states returned more than once: {dup}")
            elif got != expect:
                v.fail("search-not-sorted", f"got {got[:10]}...")
    # clause 2: the reversed table
    try:
        table = r.reverse_dfs.reverse_transition_list(tl)
    except BaseException as e:
        if isinstance(e, (KeyboardInterrupt, SystemExit)):
            raise
        v.fail("table-raises", f"{type(e).__name__}: {str(e)[:120]}", sig=type(e).__name__)
        table = None
    if table is not None:
        if sorted(table.keys()) != list(range(n)):
            v.fail("table-keys", f"keys {sorted(table.keys())[:8]}... expected 0..{n - 1}")
        else:
            want = collections.defaultdict(collections.Counter)
            for u, lst in enumerate(tl):
                for _, t in lst:
                    want[t][u] += 1
            for t in range(n):
                if collections.Counter(table[t]) != want[t]:
                    v.fail("table-entries", f"state {t}: listed {sorted(table[t])[:8]} expected "
                                            f"{sorted(want[t].elements())[:8]}")
                    break
    return v


def fuzz_stage(tier, seed):
    """Coverage-guided stage: atheris target fuzz/fuzz_revdfs.py with the BFS / Counter oracle inside."""
    from harness import fuzzstage
    runs = 40000 if tier == "quick" else 2000000
    c = fuzzstage.campaign("fuzz_revdfs.py", runs, seed, max_len=160)
    info = dict(engine="atheris (libFuzzer), target fuzz/fuzz_revdfs.py",
                campaigns=[dict(corpus="empty-corpus", executions=c["executions"], outcome_classes=c["stats"],
                                crashes=len(c["crashes"]), skipped=c.get("skipped"), note=c.get("note"),
                                final_corpus_size=c.get("corpus_size"))])
    return info, list(c["crashes"])
