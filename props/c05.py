"""C05 - final strategies are reward-optimal among reachability-optimal actions.

INV (all solvable games, boards included): for every Player 1 state the final
strategy is a sub-sequence of the reachability strategy.
REF (acyclic games with reward ties; cyclic stopping games with separated rewards):
for states reachable from the initial state in the conditioned game, the final
strategy is exactly the list of permitted actions whose successor has the exact
max (Player 1) / min (Player 2) conditioned reward, in transition order.
"""
from fractions import Fraction as F

from hypothesis import strategies as st

from harness import boards, exact, games
from harness.analysis import GameFacts, Solved, T_MAX, tol
from harness.exact import OracleError
from harness.games import P1, P2, PR
from harness.runner import Phase, Verdict
from harness.sut import solve
from props.c04 import isomorphic_tie, near_boundary

ID = "C05"
LEVEL = "exploration"
TECHNIQUE = ("property-based testing (Hypothesis): subset/sub-sequence invariant on all solvable games incl. boards; "
             "exact rational arg-max/arg-min of conditioned rewards on acyclic tie games and separated cyclic games")
LEVEL_TEXT = ("Generated-input search. The inclusion clause needs no oracle and runs on every generator including "
              "large boards. The exact-set clause compares the reported list, order included, with the exact optimal "
              "set of the conditioned game for every decided state in scope; undecided states (near-ties in cyclic "
              "games, which the statement excludes) are counted. Exploration: infinite domain."
              ' Added while validating sensitivity: twin Player 1 / Player 2 states with equal transition lists (half sharing the list object), slowly separating reward branches.'
              ' Later rounds: loop-free games with rewards in the millions that differ by units, pure-integer games with rewards beyond 2^53 (differences of 1 at 10^25), final states that are not absorbing, stale-zero Player 1 states.')
LEVEL_NOTE = ("Trusted: harness/exact.py and conditioned_game(); decidability rule gap 0 (acyclic: any value; cyclic: "
              "only value 0 or identical successor) or gap > threshold x (T_c+1) + 1e-6.")
RULE = ("case = (game, pruning mode) from: acyclic stopping games with small integer rewards (ties frequent), "
        "isomorphic-sub-game plants, general stopping games, boards. Non-trivial = a Player 1 state in scope whose "
        "reward-best successor is not reachability-optimal, or a Player 2 state in scope with >= 2 actions of different "
        "exact reward, or a decided exact reward tie between different successors. Distinct = different (game, mode).")
ASSUMPTIONS = ["exact sets are asserted only for states reachable from state 0 in the conditioned game",
               "cyclic games: a state is decided only if competing successors are both worth 0 / the same state, or "
               "separated by more than threshold x (T_c+1) + 1e-6"]
CLASS_FLOORS = {"lexicographic_matters": 0.03, "p2_reward_choice": 0.1}
SMALL_INT_REWARDS = (0, 0, 1, 1, 2, 3)


@st.composite
def game_cases(draw, max_inner=9):
    fam = draw(st.sampled_from(("acyclic", "acyclic", "iso", "stopping", "stopping", "twin", "twin", "large_close")))
    if fam == "twin":
        tw = draw(games.twin_games(min_inner=2, max_inner=max_inner - 1, dyadic=True,
                                   acyclic=draw(st.booleans()), rewards=SMALL_INT_REWARDS + (5, 0.5)))
        return dict(kind="game", game=tw["game"], alias=tw["alias"], prune=games.coin(draw))
    if fam == "acyclic":
        g = draw(games.stopping_games(min_inner=2, max_inner=max_inner, dyadic=True, acyclic=True,
                                      rewards=SMALL_INT_REWARDS, inner_finals=True))
    elif fam == "large_close":
        # rewards in the millions that differ by 1-3: expected rewards of competing successors are far apart
        # in absolute terms and within a millionth of each other in relative terms (the iteration is exact here)
        base = draw(st.sampled_from((3_000_000, 1_000_000, 2 ** 22)))
        g = draw(games.stopping_games(min_inner=2, max_inner=min(max_inner, 8), dyadic=True, acyclic=True,
                                      rewards=(base, base, base + 1, base + 2, base + 3, 0)))
    elif fam == "iso":
        g = draw(isomorphic_tie())
    else:
        g = draw(games.stopping_games(min_inner=2, max_inner=max_inner, inner_finals=True))
    return dict(kind="game", game=g, prune=games.coin(draw), fam=fam)


HUGE = (10 ** 25, 10 ** 25 + 1, 10 ** 25 + 2, 2 ** 53, 2 ** 53 + 1, 2 ** 53 + 2, 2 ** 64 + 1, 0, 1)


@st.composite
def huge_int_cases(draw, allow_float=True):
    """Loop-free games in pure integer arithmetic (integer rewards beyond 2**53, every probability the integer
    1): the solver's sums are exact there, so rewards that differ by 1 in 10**25 are different rewards."""
    owner = draw(st.sampled_from((P1, P2)))
    k = draw(st.integers(2, 4))
    tl, players, rewards = [[]], [owner], [draw(st.sampled_from((0, 1, 10 ** 25)))]
    branches = []
    base = draw(st.sampled_from((10 ** 25, 2 ** 53, 2 ** 53, 2 ** 64)))
    floaty = set()
    for i in range(k):
        depth = draw(st.integers(1, 3))
        first = len(tl)
        total = 0
        if allow_float and base == 2 ** 53 and draw(st.integers(0, 1)) == 0:
            # a one-step branch through a chance state whose probability is written 1.0: its value is a FLOAT,
            # exactly representable (an even number just above 2**53) - Python compares it exactly with the
            # integer values of the other branches
            r = base + 2 * draw(st.integers(0, 2))
            total, depth = r, 1
            players.append(PR)
            rewards.append(r)
            tl.append(None)
            floaty.add(first)
            branches.append((first, depth, total))
            continue
        for d in range(depth):
            r = base + draw(st.integers(0, 2)) if d == 0 else draw(st.sampled_from(HUGE))
            total += r
            players.append(draw(st.sampled_from((PR, PR, P1, P2))))
            rewards.append(r)
            tl.append(None)
        branches.append((first, depth, total))
    goal = len(tl)
    for first, depth, _ in branches:
        for d in range(depth):
            s = first + d
            nxt = s + 1 if d + 1 < depth else goal
            tl[s] = [(1.0 if s in floaty else 1, nxt)] if players[s] == PR else [("go", nxt)]
    tl[0] = [(games.NAMES[i], b[0]) for i, b in enumerate(branches)]
    tl.append([(1, goal)])
    players.append(PR)
    rewards.append(0)
    totals = [b[2] for b in branches]
    best = max(totals) if owner == P1 else min(totals)
    game = dict(rewards=rewards, players=players, transition_list=tl, final_states=[goal])
    return dict(kind="huge_int", game=game, expect=[games.NAMES[i] for i, t in enumerate(totals) if t == best],
                totals=[str(t) for t in totals], float_branches=len(floaty))


@st.composite
def board_cases(draw, max_len=3, max_wid=3):
    b = draw(boards.boards(max_len=max_len, max_wid=max_wid))
    return dict(kind="board", board=b, variant=draw(st.sampled_from("abc")), prune=games.coin(draw))


def big_boards(tier):
    def gen():
        specs = [(7, 5, 5, False)] if tier == "quick" else [(7, 5, 5, False), (47, 5, 10, False), (40, 10, 20, True)]
        for seed, length, width, fd in specs:
            b = boards.random_board(seed, length, width, 0.3, 6, fd)
            for variant in ("b", "c"):
                yield dict(kind="board", board=b, variant=variant, prune=False)
    return gen


def slow_cases():
    for g in games.slow_choice_games():
        for prune in (True, False):
            yield dict(kind="game", game=g, prune=prune, allow_slow=True)


def rare_jackpot_cases():
    """Planted: two lotteries of equal winning chance (1/2, so both actions stay permitted); one of them pays
    2^30 on a branch of probability 2^-22 ... 2^-40.  Conditioned on winning it is worth several hundred, the
    other one 100: the rare branch decides the final strategy (all probabilities dyadic: sums are exact)."""
    for k, jack in ((22, 2 ** 30), (30, 2 ** 38), (40, 2 ** 48)):
        tiny = 2.0 ** -k
        for owner in (P1, P2):
            for swap in (False, True):
                for pos in (0, 1, 2):
                    row = [(0.5 - tiny, 4), (0.5, 7)]
                    row.insert(pos, (tiny, 3))
                    acts = [("a", 1), ("b", 2)]
                    tl = [list(reversed(acts)) if swap else acts, row, [(0.5, 5), (0.5, 7)], [(1, 6)], [(1, 6)], [(1, 6)],
                          [(1, 6)], [(1, 7)]]
                    g = dict(rewards=[0, 0, 0, jack, 1, 100, 0, 0], players=[owner] + [PR] * 7, transition_list=tl,
                             final_states=[6])
                    for prune in (True, False):
                        yield dict(kind="game", game=g, prune=prune)


def stale_cases():
    for g in games.stale_zero_games():
        for prune in (True, False):
            yield dict(kind="game", game=g, prune=prune)


def phases(tier):
    return [
        Phase("stale-zero-player-one-states", enum=stale_cases,
              note="a Player 1 state reports exactly 0 while its successors report masses around the 6th decimal"),
        Phase("rare-but-valuable-branches", enum=rare_jackpot_cases,
              note="a branch of probability 2^-22 ... 2^-40 that pays 2^30 ... 2^48 decides between two reach-tied lotteries"),
        Phase("slow-rewarded-loops", enum=slow_cases,
              note="reach-tied branches whose rewards only separate after 10^3..10^5 sweeps"),
        Phase("games-exact-sets", strategy=lambda: game_cases(9 if tier == "quick" else 12), examples=(1600, 60000)),
        Phase("integer-rewards-beyond-2^53", strategy=huge_int_cases, examples=(200, 6000),
              note="loop-free games in pure integer arithmetic: rewards differing by 1 in 10^25 are different"),
        Phase("boards-inclusion", strategy=lambda: board_cases(3, 3) if tier == "quick" else board_cases(4, 4),
              examples=(60, 1200)),
        Phase("big-boards-inclusion", enum=big_boards(tier)),
    ]


def is_subsequence(a, b):
    it = iter(b)
    return all(x in it for x in a)


def inclusion(v, players, final, reach, label):
    if len(final) != len(players) or len(reach) != len(players):
        v.fail("wrong-length", f"{label}: {len(final)}/{len(reach)} strategies for {len(players)} states")
        return
    for s, pl in enumerate(players):
        if pl == PR:
            if final[s] is not None:
                v.fail("probabilistic-has-strategy", f"{label}: probabilistic state {s} has final strategy {final[s]!r}")
        elif pl == P1:
            if not isinstance(final[s], list) or not isinstance(reach[s], list):
                v.fail("strategy-not-a-list", f"{label}: state {s}: {final[s]!r} / {reach[s]!r}")
            elif not set(final[s]) <= set(reach[s]):
                v.fail("final-not-subset-of-reach", f"{label}: Player 1 state {s}: final {final[s]} is not a subset "
                                                    f"of reachability strategy {reach[s]}")
            elif not is_subsequence(final[s], reach[s]):
                v.fail("final-order-differs", f"{label}: Player 1 state {s}: final {final[s]} vs reach {reach[s]}")


def check_huge_int(case):
    v = Verdict()
    game = case["game"]
    v.cls("integer_arithmetic_exact")
    if case.get("float_branches"):
        v.cls("an_exactly_representable_float_among_the_integers")
    v.nontrivial = True
    if len(case["expect"]) >= 2:
        v.cls("exact_reward_tie")
    if len(set(case["totals"])) >= 2:
        v.cls("p2_reward_choice" if game["players"][0] == P2 else "p1_reward_choice")
    for prune in (False, True):
        o = solve(game, prune, sweeps=200)
        if o.kind != "ok":
            v.fail("solve-raises", f"solve(prune={prune}): {o.brief()}", sig=o.kind)
            continue
        inclusion(v, game["players"], o.result[0], o.result[1], f"solve(prune={prune})")
        got = o.result[0][0]
        if got != case["expect"]:
            v.fail("wrong-final-strategy",
                   f"solve(prune={prune}): state 0 ({game['players'][0]}) reports {got}, exact reward-optimal actions "
                   f"{case['expect']}; branch totals {case['totals']} (pure integer arithmetic), reported rewards "
                   f"{[o.result[2][t] for _, t in game['transition_list'][0]]}", sig=game["players"][0] + ":huge-int")
    return v


def check_case(case):
    if case.get("kind") == "huge_int":
        return check_huge_int(case)
    v = Verdict()
    prune = case["prune"]
    v.cls("prune" if prune else "no_prune")
    if case["kind"] == "board":
        gms = boards.games_from_board(case["board"])
        game = gms["game_" + case["variant"]]
        v.key = case
        v.cls("board")
        o = solve(game, prune, sweeps=4000)
        if o.kind == "ok":
            inclusion(v, game["players"], o.result[0], o.result[1], "board")
            v.nontrivial = True
            if any(pl == P1 and len(o.result[1][s]) > len(o.result[0][s]) for s, pl in enumerate(game["players"])):
                v.cls("board_final_strictly_smaller")
        elif o.kind == "nosol":
            v.cls("no_solution")
        elif o.kind == "budget":
            v.inconclusive = "board solve exceeded 4000 sweeps"
        else:
            v.inconclusive = "board solve failed: " + o.kind
        return v

    game = case["game"]
    if case.get("fam") == "large_close":
        v.cls("rewards_in_the_millions_differing_by_units")
    if any(any(t != f for _, t in game["transition_list"][f]) for f in set(game["final_states"])):
        v.cls("non_absorbing_final_state")
    if case.get("alias"):
        game = games.apply_alias(game, case["alias"])
        v.cls("shared_list_object")
    if "alias" in case:
        v.cls("twin_states")
    facts = GameFacts(game, allow_slow=bool(case.get("allow_slow")))
    try:
        if facts.too_slow:
            v.inconclusive = "T>300"
            return v
    except OracleError as e:
        v.inconclusive = f"oracle: {e}"
        return v
    a = Solved(facts, prune)
    o = a.outcome
    if o.kind == "nosol":
        v.cls("no_solution")
        return v
    if o.kind in ("skipped", "budget"):
        v.inconclusive = "conditioned game T_c > limit" if o.kind == "skipped" else "sweep budget exceeded (reported by C06)"
        return v
    if o.kind != "ok":
        v.fail("solve-raises", "a well-formed stopping game is not solved: " + o.brief(), sig=f"{o.kind}@{o.where}")
        return v
    label = f"solve(prune={prune})"
    inclusion(v, game["players"], a.final, a.reach_strat, label)
    try:
        cg, scope, rstar, Tc = a.cgame, a.scope, a.rstar, a.Tc
    except OracleError as e:
        v.inconclusive = f"oracle: {e}"
        return v
    acyclic = not exact.has_cycle(cg)
    v.cls("acyclic" if acyclic else "cyclic")
    tolgap = 1e-6 * (float(Tc) + 1) + 1e-6 + 1e-9 * (1 + float(max(rstar)))
    for s in sorted(scope):
        pl = game["players"][s]
        if pl == PR:
            continue
        lst = cg["transition_list"][s]
        if not lst:
            continue
        vals = [rstar[t] for _, t in lst]
        opt = max(vals) if pl == P1 else min(vals)
        gaps = [abs(x - opt) for x in vals]
        co = [i for i, g in enumerate(gaps) if g == 0]
        if any(0 < g <= tolgap for g in gaps):
            v.cls("undecided_near_tie")
            continue
        tie = len({lst[i][1] for i in co}) >= 2
        if tie and not acyclic and opt != 0:
            v.cls("undecided_cyclic_tie")
            continue
        if tie and near_boundary(opt, 6):
            v.cls("undecided_rounding_boundary")
            continue
        if tie and opt > 10 ** 8 and not all(type(a.rew[t]) is int for _, t in lst):
            # doubles of this size are further apart than the 6th decimal the solver compares at: two equal
            # rationals reached through different float sums (or one through integers only) need not compare equal
            v.cls("undecided_beyond_float_resolution")
            continue
        expect = [lst[i][0] for i in co]
        if tie:
            v.cls("exact_reward_tie")
            v.nontrivial = True
        if pl == P2 and len(set(vals)) >= 2:
            v.cls("p2_reward_choice")
            v.nontrivial = True
        if pl == P1:
            # lexicographic: is there an action cut by the reachability restriction that would pay more?
            allowed = {a_ for a_, _ in lst}
            for a_, t in game["transition_list"][s]:
                if a_ not in allowed and rstar[t] > opt:
                    v.cls("lexicographic_matters")
                    v.nontrivial = True
                    break
        got = a.final[s]
        if got != expect:
            kind = "order" if isinstance(got, list) and sorted(got) == sorted(expect) else \
                ("suboptimal-listed" if isinstance(got, list) and set(got) - set(expect) else "optimal-missing")
            v.fail("wrong-final-strategy", f"{label}: state {s} ({pl}) reports {got}, exact reward-optimal permitted "
                                           f"actions {expect}; conditioned list {lst}, exact rewards "
                                           f"{[str(x) for x in vals]}, reported rewards {[a.rew[t] for _, t in lst]}",
                   sig=f"{pl}:{kind}")
    return v
