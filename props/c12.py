"""C12 - batch runs solve each game in isolation and report failures.

DIFF: every batch entry equals what solving that game alone gives (all fields but
the wall-clock time); the same dict is run three times - as drawn, permuted, and
as a subset - and entries must be identical across the runs.  INV: key order is
run order; a failing pruned solve leaves its message, its unpruned entry says
'Game not solved' with empty results, and later games are unaffected.
"""
import copy

from hypothesis import strategies as st

from harness import exact, games
from harness.analysis import GameFacts, Solved, T_MAX, budgeted_many
from harness.budget import BudgetExceeded
from harness.exact import OracleError
from harness.games import P1, P2, PR
from harness.load import repo
from harness.runner import Phase, Verdict
from harness.sut import SkipSolve
from props.c09 import faults

ID = "C12"
LEVEL = "exploration"
TECHNIQUE = ("property-based testing (Hypothesis) of batch histories (dict, permutation, subset): differential against solo "
             "solves + bookkeeping invariants")
LEVEL_TEXT = ("Generated ordered dicts of 1-6 named games mixing solvable stopping games (most with something to prune), "
              "no-solution games and malformed games; each dict is run as drawn, permuted and as a subset; every entry is "
              "compared field by field (==, including iteration counts and both diagnostic vectors) with a solo solve on "
              "a deep copy, across the three runs, and the failure bookkeeping is checked. Exploration over inputs and "
              "short histories of batch runs."
              ' Added while validating sensitivity: twin entries - an exact copy, or a single-fault copy, of an earlier game of the same batch.'
              " Later rounds: entries carrying their own prune_states key, owner-flipped siblings, a memo-flushing solve before each solo reference, and one of the three orders read from an input file by the repository's reader.")
LEVEL_NOTE = ("Trusted: solo StochasticGame(**deepcopy(g)).solve() as the reference (the solver itself is covered by "
              "C01-C06); names never end in the reserved suffix '_no_prune' (two result keys would collide by design of "
              "the naming scheme).")
RULE = ("case = ordered dict of named games + a permutation + a subset. Non-trivial = the dict contains a failing game "
        "(no-solution or malformed) adjacent to a solvable game whose conditioning removes transitions. "
        "Distinct = different (dict, permutation, subset).")
ASSUMPTIONS = ["game names match [A-Za-z0-9_]+ and do not end in '_no_prune'",
               "stopping games with exact T <= 300; the field total_time is not compared"]
CLASS_FLOORS = {"failing_next_to_pruning_game": 0.15}
FIELDS = ("n_states", "n_transitions", "n_iterations_reach", "n_iterations_rew", "reachability_strategies",
          "final_strategies", "msg", "rewards", "rew_min_reach", "probabilities", "prob_min_rew")
NAME = st.text(alphabet="abcXYZ019_", min_size=1, max_size=6).filter(lambda s: not s.endswith("_no_prune"))


@st.composite
def one_game(draw):
    kind = draw(st.sampled_from(("stopping", "stopping", "stopping", "malformed")))
    g = draw(games.stopping_games(min_inner=1, max_inner=7, max_sinks=3, dup_names=True, zero_edges=True))
    if kind == "malformed":
        base = draw(games.any_games(min_states=2, max_states=5))
        fl = list(faults(base))
        k = draw(st.integers(0, len(fl) - 1))
        return dict(kind="malformed", game=fl[k][4], rule=fl[k][0])
    return dict(kind="stopping", game=g)


@st.composite
def batches(draw):
    k = draw(st.integers(1, 6))
    names = draw(st.lists(NAME, min_size=k, max_size=k, unique=True))
    entries = [draw(one_game()) for _ in range(k)]
    # twins: a later entry that is an exact copy of an earlier game, or the same game with ONE fault
    # (container-type faults first: they survive most serialisations)
    for j in range(1, k):
        what = draw(st.integers(0, 11))
        if what > 6:
            continue
        i = draw(st.integers(0, j - 1))
        if entries[i]["kind"] != "stopping":
            continue
        if what == 6:
            # a probability sibling (a sweep p = 0, ... over one game): the EARLIER entry becomes a variant of the game
            # in which one chance state lists its transitions into live states with probability 0 (its whole mass on
            # its dead successors, so it - and whatever reaches the goal only through it - is dead there); the later
            # entry is the game itself, with the same graph, owners, rewards and final states
            if "twin_of" in entries[i] or any(e.get("twin_of") == i for e in entries):
                continue
            sib = copy.deepcopy(entries[i]["game"])
            first = copy.deepcopy(sib)
            try:
                back = set(GameFacts(sib).back)
            except OracleError:
                continue
            options = []
            for s_, lst in enumerate(first["transition_list"]):
                if first["players"][s_] == PR and isinstance(lst, list) and s_ in back:
                    dead = [ix for ix, (p_, t_) in enumerate(lst) if t_ not in back and p_ != 0]
                    live = [ix for ix, (p_, t_) in enumerate(lst) if t_ in back and p_ != 0]
                    if dead and live:
                        options.append((s_, dead, live))
            if not options:
                continue
            s_, dead, live = draw(st.sampled_from(options))
            lst = list(first["transition_list"][s_])
            lst[dead[0]] = (lst[dead[0]][0] + sum(lst[ix][0] for ix in live), lst[dead[0]][1])
            for ix in live:
                lst[ix] = (0.0, lst[ix][1])
            first["transition_list"][s_] = lst
            if not exact.is_stopping(first):
                continue
            entries[i] = dict(kind="stopping", game=first)
            entries[j] = dict(kind="stopping", game=sib, twin_of=i, probability_sibling=True)
        elif what == 5:
            # a number-type twin: the same game with its rewards written as floats (1 == 1.0, 10**25 == 1e25 ...):
            # equal element by element under ==, but a different description with differently typed results
            sib = copy.deepcopy(entries[i]["game"])
            if all(isinstance(x, float) for x in sib["rewards"]):
                continue
            sib["rewards"] = [float(x) for x in sib["rewards"]]
            entries[j] = dict(kind="stopping", game=sib, twin_of=i)
        elif what == 4:
            # a sibling: the same rewards, owners and transition lists, OTHER final states (among the absorbing ones)
            sib = copy.deepcopy(entries[i]["game"])
            absorbing = [s_ for s_, l in enumerate(sib["transition_list"]) if l and all(t_ == s_ for _, t_ in l)]
            old = set(sib["final_states"])
            options = [[a] for a in absorbing if {a} != old] + ([sorted(old | {a}) for a in absorbing if a not in old])
            if not options:
                continue
            sib["final_states"] = list(draw(st.sampled_from(options)))
            entries[j] = dict(kind="stopping", game=sib, twin_of=i)
        elif what == 3:
            # a sibling: the same transition lists and final states, the owners of the player states flipped
            sib = copy.deepcopy(entries[i]["game"])
            sib["players"] = [P2 if p == P1 else P1 if p == P2 else p for p in sib["players"]]
            entries[j] = dict(kind="stopping", game=sib, twin_of=i)
        elif what == 0:
            entries[j] = dict(kind="stopping", game=copy.deepcopy(entries[i]["game"]), twin_of=i)
        else:
            fl = list(faults(entries[i]["game"]))
            pool = [f for f in fl if f[0].startswith("R7")] if what == 1 else fl
            f = pool[draw(st.integers(0, len(pool) - 1))]
            entries[j] = dict(kind="malformed", game=f[4], rule=f[0], twin_of=i)
    perm = list(draw(st.permutations(list(range(k)))))
    sub = [i for i in range(k) if draw(st.booleans())] or [draw(st.integers(0, k - 1))]
    # some descriptions already carry a 'prune_states' key (a legal constructor keyword, e.g. left behind by an earlier
    # batch run on the same dict): the batch driver sets the mode itself, so the key must make no difference
    own = [draw(st.sampled_from((None, None, None, True, False))) for _ in range(k)]
    return dict(names=names, games=entries, perm=perm, subset=sub, own_prune_key=own)


def phases(tier):
    return [Phase("batch-histories", strategy=batches, examples=(500, 30000))]


def sample_view(case):
    return dict(names=case["names"], kinds=[g["kind"] + (":" + g.get("rule", "") if g["kind"] == "malformed" else "")
                                            for g in case["games"]],
                perm=case["perm"], subset=case["subset"], first_game=case["games"][0]["game"])


def solo(game, prune, facts):
    """Reference: what solving the game alone gives, as the dict of fields a batch entry holds."""
    r = repo()
    out = {}
    try:
        out["n_states"] = len(game["players"])
    except Exception:
        out["n_states"] = None
    try:
        out["n_transitions"] = r.tad.StochasticGame(**copy.deepcopy(game)).count_transitions()
    except Exception:
        out["n_transitions"] = None     # not comparable
    # the reference must be what solving this game ALONE gives: solve an unrelated tiny game first, so that
    # nothing a previous solve may have left behind in the process (a one-slot memo, say) is inherited
    from harness.sut import solve as _solve
    from props.c09 import GOOD_B
    _solve(GOOD_B, True, sweeps=1000)
    if facts is not None:
        a = Solved(facts, prune)
        o = a.outcome
        if o.kind in ("budget", "skipped"):
            return None
    else:
        from harness.sut import solve
        o = solve(game, prune, sweeps=3000)
        if o.kind == "budget":
            return None
    if o.kind == "ok":
        fin, rs, rew, prob, i1, i2, pmr, rmr = o.result
        out.update(msg="Game solved", final_strategies=fin, reachability_strategies=rs, rewards=rew, probabilities=prob,
                   n_iterations_reach=i1, n_iterations_rew=i2, prob_min_rew=pmr, rew_min_reach=rmr, ok=True)
    elif o.kind in ("nosol", "valueerror"):
        out.update(msg=str(o.exc), msg_is_error_text=True, final_strategies=None,
                   reachability_strategies=None, rewards=None, probabilities=None, n_iterations_reach=0,
                   n_iterations_rew=0, prob_min_rew=0, rew_min_reach=0, ok=False)
    else:
        out.update(msg=None, ok=None, exc=o.exc)
    return out


def check_case(case):
    v = Verdict()
    r = repo()
    names, entries = case["names"], case["games"]
    k = len(names)
    facts = []
    for e in entries:
        if e["kind"] == "stopping":
            f = GameFacts(e["game"])
            try:
                if f.slow:
                    v.inconclusive = "T>300"
                    return v
            except OracleError as ex:
                v.inconclusive = f"oracle: {ex}"
                return v
            facts.append(f)
        else:
            facts.append(None)
    # solo references
    ref = {}
    removes = []
    from harness.load import fresh_instance
    for i, e in enumerate(entries):
        # "solving that game alone": in a freshly imported instance of the repository's modules, so that nothing
        # an earlier solve in this process may have cached (per process, per class, per default argument) is inherited
        with fresh_instance():
            a = solo(e["game"], True, facts[i])
            b = solo(e["game"], False, facts[i])
        if a is None or b is None:
            v.inconclusive = "conditioned game T_c > limit / budget in the reference solve"
            return v
        if a.get("ok") is None or (a["ok"] and b.get("ok") is None):
            x = a if a.get("ok") is None else b
            v.inconclusive = f"reference solve raised {type(x.get('exc')).__name__} (reported by C09/C06)"
            return v
        ref[names[i]] = a
        if a["ok"]:
            ref[names[i] + "_no_prune"] = b
        else:
            ref[names[i] + "_no_prune"] = dict(b, msg=None, msg_is_error_text=False, msg_any_not_solved=True, final_strategies=None,
                                               reachability_strategies=None, rewards=None, probabilities=None,
                                               n_iterations_reach=0, n_iterations_rew=0, prob_min_rew=0, rew_min_reach=0)
        rm = False
        if a["ok"] and facts[i] is not None:
            cg = exact.conditioned_game(e["game"], a["reachability_strategies"], a["probabilities"], True)
            rm = any(len(x) != len(y) for x, y in zip(cg["transition_list"], e["game"]["transition_list"]))
        removes.append(rm)
    failing = [not ref[n]["ok"] for n in names]
    nt = any(failing[i] and ((i > 0 and removes[i - 1]) or (i + 1 < k and removes[i + 1])) for i in range(k))
    if nt:
        v.cls("failing_next_to_pruning_game")
    if any(failing):
        v.cls("has_failing_game")
    if any(e["kind"] == "malformed" for e in entries):
        v.cls("has_malformed_game")
    if any(removes):
        v.cls("has_pruning_game")
    if any("twin_of" in e for e in entries):
        v.cls("has_twin_of_another_game")
        if any(e.get("probability_sibling") for e in entries):
            v.cls("has_probability_sibling_after_its_zero_variant")
    v.cls(f"games={k}")
    if any(x is not None for x in case.get("own_prune_key") or []):
        v.cls("description_carries_prune_states_key")
    v.nontrivial = nt

    orders = [("as-drawn", list(range(k))), ("permuted", case["perm"]), ("subset", case["subset"])]
    results = {}
    try:
        with budgeted_many([f for f in facts if f is not None], extra_modules=(r.conditionalrewards,)):
            for label, order in orders:
                d = {names[i]: copy.deepcopy(entries[i]["game"]) for i in order}
                for i in order:
                    key = (case.get("own_prune_key") or [None] * k)[i]
                    if key is not None and isinstance(d[names[i]], dict):
                        d[names[i]]["prune_states"] = key
                try:
                    if label == "permuted":
                        # this order reaches the driver the way the command line feeds it: as the text of an
                        # input file read back by the repository's reader (when the batch has such a text)
                        from harness import sut as _sut
                        loaded = _sut.file_roundtrip(d)
                        if loaded is not None:
                            d = loaded
                            v.cls("batch_read_from_an_input_file")
                    results[label] = (order, r.conditionalrewards.run_games(d))
                except (BudgetExceeded, SkipSolve):
                    raise
                except Exception as ex:
                    v.fail("batch-runner-raises", f"run_games ({label}, order {[names[i] for i in order]}) raised "
                                                  f"{type(ex).__name__}: {str(ex)[:120]}", sig=type(ex).__name__)
                    return v
    except BudgetExceeded:
        v.inconclusive = "sweep budget exceeded in the batch (reported by C06)"
        return v
    except SkipSolve:
        v.inconclusive = "conditioned game T_c > limit"
        return v
    for label, (order, res) in results.items():
        want_keys = [x for i in order for x in (names[i], names[i] + "_no_prune")]
        if list(res.keys()) != want_keys:
            v.fail("batch-key-order", f"{label}: keys {list(res.keys())} expected {want_keys}")
            continue
        for key in want_keys:
            e = res[key]
            rf = ref[key]
            for f in FIELDS:
                if f == "n_transitions" and rf[f] is None:
                    continue
                if f == "msg":
                    # wording is not prescribed: a failing entry must carry the solver's error text, a not-solved
                    # entry any message, a solved entry the same message in all runs (checked across runs below)
                    m = e.get("msg")
                    okm = isinstance(m, str) and (
                        (rf.get("msg_is_error_text") and rf["msg"].lower() in m.lower() and e.get("rewards") is None) or
                        (rf.get("msg_any_not_solved") and e.get("rewards") is None) or
                        (rf.get("ok") and not rf.get("msg_any_not_solved") and e.get("rewards") is not None))
                    if okm and rf.get("msg_any_not_solved") and key.endswith("_no_prune"):
                        # "marked not solved" is something other than a second copy of the failure report: an
                        # unpruned entry that repeats the pruned entry's message word for word is a failed solve
                        pm = res.get(key[:-len("_no_prune")], {}).get("msg")
                        if isinstance(pm, str) and pm == m:
                            v.fail("unpruned-entry-repeats-the-failure", f"{label}: entry {key} carries the same "
                                                                         f"message as the failed pruned entry "
                                                                         f"({m!r}) instead of being marked not solved",
                                   sig="repeat")
                            break
                    if not okm:
                        v.fail("batch-entry-differs-from-solo", f"{label}: entry {key} has message {m!r}; solving the "
                                                                f"game alone gives {('error ' + rf['msg']) if rf.get('msg_is_error_text') else 'a result' if rf.get('ok') else 'no solve'}",
                               sig="msg")
                        break
                    continue
                if f not in e:
                    v.fail("batch-field-missing", f"{label}: entry {key} lacks {f}", sig=f)
                    break
                if e[f] != rf[f] or type(e[f]) is not type(rf[f]) and not (isinstance(e[f], (int, float)) and
                                                                          isinstance(rf[f], (int, float))) or \
                        (isinstance(e[f], list) and repr(e[f]) != repr(rf[f])):
                    kindg = "failing game" if not ref[key.replace("_no_prune", "")]["ok"] else "solvable game"
                    v.fail("batch-entry-differs-from-solo", f"{label} (order {[names[i] for i in order]}): entry "
                                                            f"{key} ({kindg}) field {f} is {str(e[f])[:160]} but solving "
                                                            f"the game alone gives {str(rf[f])[:160]}",
                           sig=f"{f}:{'unpruned' if key.endswith('_no_prune') else 'pruned'}")
                    break
    return v
