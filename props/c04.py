"""C04 - reachability strategies list exactly the value-optimal actions.

REF: exact values => exact arg-max / arg-min sets.  A player state is *decided*
only if every competing successor's exact value is equal to the optimum or
further from it than the numerical tolerance; undecided states are counted, not
asserted.  Known finding K1 (exact ties of only-approximately-converged values
split by 6-digit rounding) is recognised by a semantic signature computed from
the oracle and the reported probabilities.
"""
import math

from hypothesis import strategies as st

from harness import exact, games
from harness.analysis import GameFacts, Solved, T_MAX
from harness.budget import BudgetExceeded, sweep_budget
from harness.exact import OracleError
from harness.games import P1, P2, PR, copy_game
from harness.load import repo
from harness.runner import Phase, Verdict, active_known
from harness.sut import classify_exception

ID = "C04"
LEVEL = "exploration"
TECHNIQUE = ("property-based testing (Hypothesis) with planted exact ties against exact rational arg-max/arg-min sets; "
             "differential pruning on/off")
LEVEL_TEXT = ("Generated-input search over arbitrary and stopping games with dyadic probabilities and planted ties "
              "(duplicated successors, several finals, isomorphic acyclic and cyclic sub-games numbered in opposite "
              "order, all-zero successor sets); each decided player state's reported list is compared, order "
              "included, with the exact optimal set; lists are compared between pruning modes. Exploration: the "
              "domain is infinite; the oracle is exact and states it cannot decide are counted, not asserted."
              ' Added while validating sensitivity: near-gap lotteries (differences 2^-7..2^-16), deep corridors with known exact values, tricky action names.'
              ' Later rounds: lotteries written in decimals whose equal goal mass is reached through different float sums (0.7+0.2+0.1 against 1), solver thresholds that are not powers of ten, empty and pattern-like action names.')
LEVEL_NOTE = ("Trusted: harness/exact.py; the decidability rule (gap 0 or gap > threshold x (T+1) + rounding unit). "
              "Known finding K1 is matched by signature, never by input.")
RULE = ("case = game x API (solve() in both modes / Solver with a power-of-ten threshold). Non-trivial = a decided "
        "player state with >= 2 actions and (an exact tie between different successors, or a strictly worse action "
        "present). Distinct = different (game, API, threshold).")
ASSUMPTIONS = ["a state is decided only if competing successors are exactly tied or separated by more than "
               "threshold x (T+1) + 10^-digits (stopping games, T <= 300), or by more than 1e-3 with the reported "
               "values within 1e-4 of the exact ones (non-stopping games)",
               "ties whose common value lies within 1e-9 of a rounding boundary are counted as undecided"]
CLASS_FLOORS = {"exact_tie": 0.15, "worse_action_present": 0.3}
K1 = "K1"


# ----------------------------------------------------------------------------- generators
@st.composite
def isomorphic_tie(draw, cyclic=None):
    """Root player state over two isomorphic sub-games numbered in opposite orders (exact tie
    reached through different floating-point sums), optionally a third action of another value."""
    if cyclic is None:
        cyclic = draw(st.booleans())
    sub = draw(games.stopping_games(min_inner=1, max_inner=4, max_finals=1, max_sinks=1, dyadic=True,
                                    acyclic=not cyclic, dead_bias=False))
    n = len(sub["players"])
    mapA = {i: 1 + i for i in range(n)}
    mapB = {i: 1 + n + (n - 1 - i) for i in range(n)}
    N = 1 + 2 * n
    players = [None] * N
    rew = [0] * N
    tl = [None] * N
    for m, rev in ((mapA, False), (mapB, True)):
        for i in range(n):
            lst = [(l, m[t]) for l, t in sub["transition_list"][i]]
            if rev and sub["players"][i] == PR:
                lst = lst[::-1]
            players[m[i]] = sub["players"][i]
            rew[m[i]] = sub["rewards"][i]
            tl[m[i]] = lst
    owner = draw(st.sampled_from((P1, P2)))
    acts = [("a", mapA[0]), ("b", mapB[0])]
    extra = draw(st.integers(0, 2))
    finals = [mapA[f] for f in sub["final_states"]] + [mapB[f] for f in sub["final_states"]]
    if extra:
        # a lottery state of some other value
        players.append(PR)
        rew.append(0)
        q = draw(st.sampled_from((0.0, 0.25, 0.5, 0.75, 1.0)))
        sinkB = None
        for i in range(n):
            if i not in sub["final_states"] and exact.is_absorbing(sub, i):
                sinkB = mapB[i]
        if sinkB is None or q == 1.0:
            tl.append([(1, finals[0])])
        elif q == 0.0:
            tl.append([(1, sinkB)])
        else:
            tl.append([(q, finals[0]), (1 - q, sinkB)])
        acts.insert(draw(st.integers(0, 2)), ("c", N))
    players[0] = owner
    tl[0] = acts
    rew[0] = 0
    return dict(rewards=rew, players=players, transition_list=tl, final_states=finals)


@st.composite
def with_duplicates(draw):
    """A stopping game in which some player states list the same successor under two action names."""
    g = draw(games.stopping_games(min_inner=2, max_inner=8, dyadic=True))
    g = copy_game(g)
    for s, pl in enumerate(g["players"]):
        lst = g["transition_list"][s]
        if pl != PR and len(lst) < 5 and draw(st.integers(0, 2)) == 0 and not exact.is_absorbing(g, s):
            k = draw(st.integers(0, len(lst) - 1))
            pos = draw(st.integers(0, len(lst)))
            lst.insert(pos, ("dup", lst[k][1]))
    return g


@st.composite
def near_gap(draw, scale=1.0):
    """A player state choosing between lotteries whose winning chances differ by a small amount: a
    dyadic 2^-k (k = 7..17), or 4.5 / 6 / 9 times the solver threshold - just above the numerical
    tolerance (4 x threshold here) and below half a unit of the next coarser rounding digit."""
    k = draw(st.integers(2, 4))
    base = draw(st.sampled_from((0.25, 0.5, 0.75)))
    owner = draw(st.sampled_from((P1, P2)))
    # states: 0 root, 1 final, 2 sink, 3.. lotteries
    players = [owner, PR, PR]
    tl = [None, [(1, 1)], [(1, 2)]]
    acts = []
    for i in range(k):
        sign = draw(st.sampled_from((-1, 0, 1)))
        if draw(st.booleans()):
            gap = 2.0 ** (-draw(st.integers(7, 17)))
        else:
            # multiples of the rounding unit of the threshold in use (1.5 .. 60 units)
            gap = draw(st.sampled_from((1.5e-6, 3e-6, 4.5e-6, 6e-6, 9e-6, 2e-5, 6e-5))) * scale
        p = base + sign * gap
        players.append(PR)
        tl.append([(p, 1), (1 - p, 2)])
        acts.append((games.NAMES[i], 3 + i))
    tl[0] = acts
    return dict(rewards=[0] * len(players), players=players, transition_list=tl, final_states=[1])


@st.composite
def cases(draw):
    fam = draw(st.sampled_from(("iso", "iso", "dup", "stopping", "any", "any", "near", "renamed_twin")))
    if fam == "near":
        if draw(st.booleans()):
            # thresholds that are not powers of ten included: the number of digits is floor(-log10(threshold))
            theta = draw(st.sampled_from((1e-3, 1e-4, 1e-6, 1e-8, 5e-7, 5e-3, 2e-6, 7e-5, 3.2e-4)))
            unit = 10.0 ** (-abs(math.floor(math.log(theta, 10))))
            return dict(game=draw(near_gap(scale=unit / 1e-6)), api="solver", theta=theta)
        g = draw(near_gap())
    elif fam == "iso":
        g = draw(isomorphic_tie())
    elif fam == "dup":
        g = draw(with_duplicates())
    elif fam == "stopping":
        g = draw(games.stopping_games(min_inner=2, max_inner=9, dyadic=True))
    elif fam == "renamed_twin":
        # two states of the same owner with the same successor sequence under different action names
        g = draw(games.twin_games(renamed=True, min_inner=2, max_inner=8, dyadic=True, max_actions=3))["game"]
    else:
        g = draw(games.any_games(max_states=8, dyadic=True, max_pairs=256))
        return dict(game=g, api="solver", theta=draw(st.sampled_from((1e-3, 1e-4, 1e-6, 1e-6, 1e-8))))
    if draw(st.integers(0, 3)) == 0:
        return dict(game=g, api="solver", theta=draw(st.sampled_from((1e-3, 1e-4, 1e-6, 1e-8))))
    return dict(game=g, api="solve")


def corridor_cases():
    for game, vals, T in games.corridor_games():
        yield dict(game=game, api="solver", theta=1e-6, known=dict(pstar=vals, T=T))


# distributions written in decimals whose goal mass is the same rational number, summed along different
# floating-point paths (0.7 + 0.2 + 0.1 is one ulp below 1, 0.1 + 0.2 one ulp above 0.3, ...)
DECIMAL_SPLITS = {
    "1": [[1], [0.7, 0.2, 0.1], [0.3, 0.3, 0.3, 0.1], [0.1] * 10, [0.6, 0.4], [0.9, 0.1]],
    "0.3": [[0.3], [0.1, 0.2], [0.1, 0.1, 0.1], [0.15, 0.15], [0.05, 0.25]],
    "0.6": [[0.6], [0.2, 0.2, 0.2], [0.1, 0.5], [0.3, 0.3], [0.35, 0.25]],
    "0.9": [[0.9], [0.3, 0.3, 0.3], [0.1] * 9, [0.7, 0.2], [0.45, 0.45]],
}


@st.composite
def decimal_tie_cases(draw):
    """A chooser over 2-4 lotteries of equal goal mass (as decimals), optionally one clearly different one."""
    from fractions import Fraction as F
    v = draw(st.sampled_from(sorted(DECIMAL_SPLITS)))
    k = draw(st.integers(2, 4))
    splits = [draw(st.sampled_from(DECIMAL_SPLITS[v])) for _ in range(k)]
    other = draw(st.sampled_from((None, "0.5", "0.2", "0.95")))
    owner = draw(st.sampled_from((P1, P2)))
    lots = [(sp, F(v)) for sp in splits]
    if other is not None and other != v:
        lots.insert(draw(st.integers(0, len(lots))), ([float(other)], F(other)))
    n_l = len(lots)
    # states: 0 chooser, 1..n_l lotteries, then goals G1..G3 (final), sink
    g0 = 1 + n_l
    goals, sink = [g0, g0 + 1, g0 + 2], g0 + 3
    tl = [[(games.NAMES[i], 1 + i) for i in range(n_l)]]
    for sp, _ in lots:
        row = [(p, goals[j % 3]) for j, p in enumerate(sp)]
        rest = 1 - sum(F(str(p)) for p in sp)
        if rest > 0:
            row.insert(draw(st.integers(0, len(row))), (float(rest), sink))
        tl.append(row)
    tl += [[(1, x)] for x in goals + [sink]]
    n = len(tl)
    vals = [x for _, x in lots]
    best = max(vals) if owner == P1 else min(vals)
    game = dict(rewards=[1] + [0] * (n - 1), players=[owner] + [PR] * (n - 1), transition_list=tl,
                final_states=list(draw(st.permutations(goals))))
    return dict(kind="decimal_ties", game=game, expect=[games.NAMES[i] for i, x in enumerate(vals) if x == best],
                value=v)


@st.composite
def wide_choosers(draw):
    """A player state with 9-16 actions over lotteries worth 1/4, 1/2 or 3/4: wide ties whose members sit at
    positions beyond the first eight (below a coin, so that the state is not the initial one in half of the cases)."""
    owner = draw(st.sampled_from((P1, P2)))
    k = draw(st.integers(9, 16))
    vals = [draw(st.sampled_from((0.25, 0.5, 0.75))) for _ in range(k)]
    below = draw(st.booleans())
    # states: [0 coin ->] chooser, k lotteries, goal, sink
    first = 1 if below else 0
    n = first + 1 + k + 2
    goal, sink = n - 2, n - 1
    players = ([PR] if below else []) + [owner] + [PR] * (k + 2)
    tl = ([[(0.5, 1), (0.5, sink)]] if below else []) + [[(f"a{i}", first + 1 + i) for i in range(k)]]
    tl += [[(v, goal), (1 - v, sink)] for v in vals]
    tl += [[(1, goal)], [(1, sink)]]
    return dict(game=dict(rewards=[0] * n, players=players, transition_list=tl, final_states=[goal]), api="solve")


def phases(tier):
    return [Phase("wide-player-states", strategy=wide_choosers, examples=(150, 5000),
                  note="9-16 actions with ties among three values"),
            Phase("decimal-ties", strategy=decimal_tie_cases, examples=(300, 8000),
                  note="equal rational values reached through different floating-point sums (decimal probabilities)"),
            Phase("deep-corridors", enum=corridor_cases,
                  note="values that travel one state per sweep over 60-1030 states; exact values known by construction"),
            Phase("planted-ties-and-random", strategy=cases, examples=(2000, 80000))]


def sample_view(case):
    if "known" in case:
        return dict(api=case["api"], theta=case["theta"], n_states=len(case["game"]["players"]),
                    first_states=case["game"]["transition_list"][:6], note="deep corridor, abbreviated")
    return case


# ----------------------------------------------------------------------------- the check
def near_boundary(x, digits):
    """Is the exact value x within 1e-9 of a rounding boundary (k + 1/2) * 10^-digits ?"""
    from fractions import Fraction as F
    unit = F(1, 10 ** digits)
    y = x / unit - F(1, 2)
    frac = y - math.floor(y)
    d = min(frac, 1 - frac) * unit
    return d < F(1, 10 ** 9)


def harness_argopt(lst, phat, digits, owner):
    vals = [round(phat[t], digits) for _, t in lst]
    best = max(vals) if owner == P1 else min(vals)
    return [a for (a, _), x in zip(lst, vals) if x == best]


def check_strategies(v, game, facts, pstar, phat, strat, theta, label, stopping):
    digits = abs(math.floor(math.log(theta, 10)))
    known = active_known(ID)
    n = facts.n
    if stopping:
        T = facts.T
        if facts.too_slow:
            v.cls("T>300")
            return
        tolgap = theta * (float(T) + 1) + 10.0 ** (-digits)
        if not facts.has_cycle and all(float(x).hex() == float(y).hex() for x, y in zip(pstar, phat)):
            # loop-free game whose reported values are bit-exact: only the rounding unit limits what can be decided
            tolgap = 1.05 * 10.0 ** (-digits)
            v.cls("values_bit_exact")
    else:
        delta = max(abs(float(pstar[s]) - phat[s]) for s in range(n))
        if delta > 1e-4:
            v.cls("slow_convergence")
            return
        tolgap = 1e-3
    if len(strat) != n:
        v.fail("wrong-length", f"{label}: {len(strat)} strategies for {n} states")
        return
    for s in range(n):
        pl = game["players"][s]
        lst = game["transition_list"][s]
        if pl == PR:
            if strat[s] is not None:
                v.fail("probabilistic-has-strategy", f"{label}: probabilistic state {s} reports {strat[s]!r}")
            continue
        vals = [pstar[t] for _, t in lst]
        opt = max(vals) if pl == P1 else min(vals)
        gaps = [abs(x - opt) for x in vals]
        if any(0 < g <= tolgap for g in gaps):
            v.cls("undecided_near_tie")
            continue
        co = [i for i, g in enumerate(gaps) if g == 0]
        tie = len({lst[i][1] for i in co}) >= 2
        if tie and near_boundary(opt, digits):
            v.cls("undecided_rounding_boundary")
            continue
        expect = [lst[i][0] for i in co]
        if len(lst) >= 2:
            if tie:
                v.cls("exact_tie")
                v.nontrivial = True
            if len(co) < len(lst):
                v.cls("worse_action_present")
                v.nontrivial = True
                if pl == P2:
                    v.cls("p2_strict_choice")
        if all(x == 0 for x in vals) and len(lst) >= 2:
            v.cls("all_zero_successors")
        got = strat[s]
        if got == expect:
            continue
        if not isinstance(got, list):
            v.fail("strategy-not-a-list", f"{label}: state {s} reports {got!r}")
            continue
        # K1 signature: a strict, non-empty subset of the exact co-optima, equal to the arg-opt of the
        # 6-digit-rounded REPORTED values, where the co-optima's reported values differ by less than the
        # tolerance (i.e. the tie is only missed because two approximations round differently)
        co_actions = set(expect)
        if got and set(got) < co_actions and [a for a in expect if a in got] == got:
            ph = [phat[lst[i][1]] for i in co]
            spread = max(ph) - min(ph)
            # ... and only where an approximation is involved at all: a co-optimal successor whose value does not
            # depend on any cycle is computed exactly by the iteration (up to float rounding), so its reported
            # value must be the exact one; a tie lost there is not K1
            exact_ones_ok = all(abs(phat[lst[i][1]] - float(pstar[lst[i][1]])) <= 1e-12
                                for i in co if not exact.depends_on_cycle(game, lst[i][1]))
            some_cyclic = any(exact.depends_on_cycle(game, lst[i][1]) for i in co)
            if got == harness_argopt(lst, phat, digits, pl) and 0 < spread <= tolgap and exact_ones_ok and some_cyclic:
                if K1 in known:
                    v.fail("tie-missed-by-rounding", f"{label}: state {s} ({pl}) reports {got}, exact co-optima "
                                                     f"{expect} (value {opt}); reported successor values "
                                                     f"{[phat[t] for _, t in lst]}", known=K1)
                else:
                    v.fail("tie-missed-by-rounding", f"{label}: state {s} ({pl}) reports {got}, exact co-optima "
                                                     f"{expect} (value {opt}); reported successor values "
                                                     f"{[phat[t] for _, t in lst]}", sig=pl)
                continue
        kind = "order" if sorted(got) == sorted(expect) else \
            ("worse-action-listed" if set(got) - co_actions else "optimal-action-missing")
        v.fail("wrong-reachability-strategy", f"{label}: state {s} ({pl}) reports {got}, exact optimal actions in "
                                              f"transition order {expect}; successors {lst}, exact values "
                                              f"{[str(x) for x in vals]}, reported values "
                                              f"{[phat[t] for _, t in lst]}", sig=f"{pl}:{kind}")


def check_decimal_ties(case):
    """The expected list comes from the decimal reading of the probabilities (0.7 + 0.2 + 0.1 = 1); the values
    are loop-free, nowhere near a rounding boundary, and their float sums are within 1e-15 of the decimal value."""
    from harness.sut import solve
    v = Verdict()
    v.cls("decimal_ties", "tie_value_" + case["value"])
    v.nontrivial = len(case["expect"]) >= 2
    if len(case["expect"]) >= 2:
        v.cls("exact_tie")
    game = case["game"]
    for prune in (False, True):
        o = solve(game, prune, sweeps=200)
        if o.kind != "ok":
            v.fail("solver-raises", f"solve(prune={prune}): {o.brief()}", sig=o.kind)
            continue
        got = o.result[1][0]
        if got != case["expect"]:
            v.fail("wrong-reachability-strategy",
                   f"solve(prune={prune}): state 0 ({game['players'][0]}) reports {got}, the actions of "
                   f"{'largest' if game['players'][0] == P1 else 'smallest'} value are {case['expect']}; lotteries "
                   f"{game['transition_list'][1:1 + len(game['transition_list'][0])]}, reported values "
                   f"{[o.result[3][t] for _, t in game['transition_list'][0]]}", sig=game["players"][0] + ":decimal")
        if any(x is not None for x in o.result[1][1:]):
            v.fail("probabilistic-has-strategy", f"solve(prune={prune}): {o.result[1]}")
    return v


def check_case(case):
    if case.get("kind") == "decimal_ties":
        return check_decimal_ties(case)
    v = Verdict()
    game = case["game"]
    facts = GameFacts(game, known=case.get("known"))
    if "known" in case:
        v.key = dict(n=len(game["players"]), first=game["transition_list"][:8], owner=game["players"][0])
    try:
        stopping = facts.stopping
        pstar = facts.pstar
    except OracleError as e:
        v.inconclusive = f"oracle: {e}"
        return v
    v.cls("stopping" if stopping else "not_stopping", "api_" + case["api"])
    if case["api"] == "solver":
        theta = case["theta"]
        r = repo()
        tad = r.tad
        g = copy_game(game)
        try:
            with sweep_budget(tad, 600000, len(game["players"])):
                sg = tad.StochasticGame(**g)
                sg.check_game()
                state_list = sg.init_states()
                solver = tad.Solver(state_list=state_list, threshold=theta)
                strat, _ = solver.solve_reachability(g["transition_list"], g["final_states"], False)
                phat = [s.reach_probability for s in state_list]
        except BudgetExceeded:
            v.inconclusive = "reachability loop still running after 600000 sweeps"
            return v
        except Exception as e:
            o = classify_exception(e)
            v.fail("solver-raises", o.brief(), sig=f"{type(e).__name__}@{o.where}")
            return v
        check_strategies(v, game, facts, pstar, phat, strat, theta, f"Solver(threshold={theta:g})", stopping)
        return v
    if not stopping:
        v.inconclusive = "solve() route needs a stopping game"
        return v
    if facts.too_slow:
        v.inconclusive = "T>300"
        return v
    a, b = Solved(facts, True), Solved(facts, False)
    done = False
    for x in (b, a):
        if x.outcome.kind == "ok" and not done:
            check_strategies(v, game, facts, pstar, x.prob, x.reach_strat, 1e-6, f"solve(prune={x.prune})", True)
            done = True
    if a.outcome.kind == "ok" and b.outcome.kind == "ok" and a.reach_strat != b.reach_strat:
        v.fail("strategies-differ-between-modes", f"prune=True {a.reach_strat} vs prune=False {b.reach_strat}")
    if a.outcome.kind == "nosol":
        v.cls("no_solution")
    for x in (a, b):
        if x.outcome.kind == "budget":
            v.inconclusive = "sweep budget exceeded (reported by C06)"
        elif x.outcome.kind in ("valueerror", "exception"):
            v.fail("solve-raises", "a well-formed stopping game is not solved: " + x.outcome.brief(), sig=f"{x.outcome.kind}@{x.outcome.where}")
    return v
