"""C02 - reported expected rewards are the values of the conditioned game.

REF: the conditioned game is rebuilt from the REPORTED reachability strategies and
probabilities exactly as the statement defines it (restriction of Player 1,
deletion of Player 1 / probabilistic transitions into probability-0 states when
pruning, renormalisation in Fractions), and its max-min expected total reward is
computed exactly by strategy iteration.  Boards and the repository's example
inputs (not necessarily stopping) are held to the Bellman-consistency form.
"""
import os

from hypothesis import strategies as st

from harness import boards, exact, games
from harness.analysis import GameFacts, Solved, T_MAX, T_MAX_COND, bellman_reward, tol
from harness.exact import OracleError
from harness.games import P1, P2, PR
from harness.load import repo
from harness.runner import Phase, Verdict
from harness.sut import solve

ID = "C02"
LEVEL = "exploration"
TECHNIQUE = ("property-based testing (Hypothesis) against an exact rational solver of the conditioned game rebuilt "
             "from the reported strategies/probabilities; Bellman-residual invariant on boards and example inputs")
LEVEL_TEXT = ("Generated-input search over constructed stopping games (rewards on probabilistic states and on cycles, "
              "0-3 sinks, dead regions, several dead successors per list) in both pruning modes; every reported reward "
              "in scope is compared with the exact max-min total reward of the conditioned game within threshold x "
              "(T_c+1). Boards (1x1..4x4, three variants) and the repository's example files are checked in "
              "fixed-point form with the harness's own reward operator. Exploration: infinite domain, exact oracle "
              "on what is generated."
              " Added while validating sensitivity: planted tiny positive reach values (1e-9..1e-6), slowly escaping rewarded loops (10^3..4x10^5 sweeps), medium-size games (20-300 states) against the harness's own tight iteration on the rebuilt conditioned game, exact duplicate edges, duplicate action labels, zero-probability transitions, rewards to 2.5e7.")
LEVEL_NOTE = ("Trusted: harness/exact.py strategy iteration and conditioned_game(); tolerance argument of DESIGN 2.4 "
              "(two-sided: the reward iteration is not monotone once emptied states start at their own reward). "
              f"Cases whose conditioned game has T_c > {T_MAX_COND} are counted inconclusive.")
RULE = ("case = (stopping game, pruning mode) or (board, variant, mode) or (repository example game, mode). "
        "Non-trivial = conditioning removed >= 1 transition, or the conditioned game has a cycle through a state "
        "with positive reward, or a Player 2 state in scope has two actions with different exact reward. "
        "Distinct = different (game, mode).")
ASSUMPTIONS = ["scope of the claim: states reachable from state 0 in the conditioned game when pruning, all states "
               "otherwise (as in the statement)",
               "a pruned solve that reports 'no solution' is C06's business and skipped here"]
CLASS_FLOORS = {"removed>=1": 0.2}


@st.composite
def stopping_cases(draw, max_inner=9):
    g = draw(games.stopping_games(min_inner=2, max_inner=max_inner, dup_names=True, zero_edges=True, inner_finals=True))
    return dict(kind="game", game=g, prune=games.coin(draw))


@st.composite
def sibling_cases(draw):
    """Two games solved back to back that share their transition lists: the second differs only in its rewards,
    or only in the owners of some player states.  Each is compared with its own exact conditioned values."""
    g = draw(games.stopping_games(min_inner=2, max_inner=8, dyadic=True))
    h = games.copy_game(g)
    how = draw(st.sampled_from(("rewards", "owners", "hash_congruent_reward")))
    n = len(g["players"])
    if how == "hash_congruent_reward":
        # CPython hashes numbers modulo 2**61 - 1: r and r + 2**61 - 1 are different rewards with the same hash
        inner = [s for s in range(n) if not exact.is_absorbing(g, s)]
        s_ = draw(st.sampled_from(inner))
        r_ = draw(st.sampled_from((0, 1, 3)))
        g = games.copy_game(g)
        g["rewards"][s_] = r_
        h["rewards"][s_] = r_ + 2 ** 61 - 1
    elif how == "rewards":
        for s in range(n):
            if not exact.is_absorbing(g, s) and draw(st.booleans()):
                h["rewards"][s] = draw(st.sampled_from((0, 1, 2, 3, 5, 0.5, 7.25)))
    else:
        for s in range(n):
            if g["players"][s] in (P1, P2) and draw(st.booleans()):
                h["players"][s] = P2 if g["players"][s] == P1 else P1
    return dict(kind="siblings", first=g, second=h, how=how, prune=games.coin(draw))


@st.composite
def number_type_twins(draw):
    """A loop-free game in pure integer arithmetic (rewards beyond 2**53, every probability the integer 1) and
    its twin whose numbers are floats: the two descriptions compare equal element by element (2**60 == 2.0**60),
    yet the integer one is solved exactly and the float one is not.  The float twin is solved first."""
    from props.c05 import huge_int_cases
    c = draw(huge_int_cases(allow_float=False))
    return dict(kind="type_twins", game=c["game"], prune=games.coin(draw))


@st.composite
def board_cases(draw, max_len=3, max_wid=3):
    b = draw(boards.boards(max_len=max_len, max_wid=max_wid))
    return dict(kind="board", board=b, variant=draw(st.sampled_from("abc")), prune=games.coin(draw))


def example_cases():
    r = repo()
    for fname in ("example_games.py", "paper_games.py", "example_17_08.py", "manual_1_game_a.py"):
        path = os.path.join(r.path, "inputs", fname)
        if not os.path.exists(path):
            continue
        try:
            d = r.conditionalrewards.read_dict_from_file(path)
        except Exception:
            continue
        for name, g in d.items():
            g = {k: g[k] for k in ("rewards", "players", "transition_list", "final_states") if k in g}
            if len(g) != 4 or len(g["players"]) > 400:
                continue
            for prune in (True, False):
                yield dict(kind="example", file=fname, name=name, game=g, prune=prune)


def leaking_dead_edge_games():
    """Planted: a chance row whose live part already sums to 1.0 in floating point and whose dead part is too small
    to show in that sum (1e-17, 1e-30): the dead target is a Player 2 state (conditioning leaves its list alone)
    that pays 1e20 - if the edge into it survives, its value leaks into the live state."""
    for eps in (1e-17, 1e-30, 5e-324):
        for pos in (0, 1):
            row = [(1.0, 1)]
            row.insert(pos, (eps, 3))
            # 0 coin; 1 final; 2 sink; 3 dead Player 2 state paying 1e20 then sinking; 4 the leaking row
            yield dict(rewards=[1, 0, 0, 1e20, 2], players=[PR, PR, PR, P2, PR],
                       transition_list=[[(0.5, 4), (0.5, 1)], [(1, 1)], [(1, 2)], [("x", 2)],
                                        [(eps, 3), (1.0, 1)] if pos == 0 else [(1.0, 1), (eps, 3)]],
                       final_states=[1])


def tiny_cases():
    for g in list(games.tiny_reach_games()) + list(games.dup_edge_games()) + list(leaking_dead_edge_games()):
        for prune in (True, False):
            yield dict(kind="game", game=g, prune=prune)


def medium_phase(tier):
    from harness import medium
    def gen():
        for c in medium.medium_cases(18 if tier == "quick" else 300, base_seed=2):
            for prune in (True, False):
                yield dict(kind="medium", seed=c["seed"], n_inner=c["n_inner"], prune=prune)
    return gen


def check_medium(case, v):
    from harness import medium
    game = medium.medium_game(case["seed"], case["n_inner"], reward_pool=(0, 0, 1, 2, 5, 0.5, 3.25))
    prune = case["prune"]
    n = len(game["players"])
    v.key = case
    v.cls("medium", f"medium_states<={64 if n <= 64 else 128 if n <= 128 else 320}")
    o, info = medium.solve_medium(game, prune)
    if o is None:
        v.inconclusive = info
        return v
    if o.kind == "nosol":
        v.cls("no_solution")
        return v
    if o.kind in ("budget", "skipped"):
        v.inconclusive = "sweep budget / T_c limit (reported by C06)"
        return v
    lab = f"medium game (seed={case['seed']}, {n} states) solve(prune={prune})"
    if o.kind != "ok":
        v.fail("solve-raises", f"{lab}: {o.brief()}", sig=o.kind)
        return v
    final, rs, rew, prob = o.result[0], o.result[1], o.result[2], o.result[3]
    cg = exact.conditioned_game(game, rs, prob, prune)
    ref = medium.reward_values(cg)
    Tc = medium.float_T(cg)
    if ref is None or Tc is None:
        v.inconclusive = "reference iteration did not settle"
        return v
    scope = exact.forward_reachable(cg, 0) if prune else set(range(n))
    removed = sum(len(a) - len(b) for a, b in zip(game["transition_list"], cg["transition_list"]))
    if removed:
        v.cls("removed>=1")
    v.nontrivial = True
    for s in sorted(scope):
        allowed = 1e-6 * (Tc * 1.01 + 2) + 1e-9 * (1 + abs(ref[s]))
        if abs(rew[s] - ref[s]) > allowed:
            v.fail("reward-differs-from-conditioned-value", f"{lab}: state {s} ({game['players'][s]}) reports {rew[s]!r}, "
                                                            f"reference value of the conditioned game {ref[s]!r}; allowed "
                                                            f"{allowed:.3g} (T^_c={Tc:.3g})", sig="medium")
            break
    return v


def slow_cases(tier="quick"):
    for g in games.slow_choice_games():
        for prune in (True, False):
            yield dict(kind="game", game=g, prune=prune, allow_slow=True)
    for g in games.rewarded_corridor_games((130,) if tier == "quick" else (130, 360)):
        for prune in (True, False):
            yield dict(kind="game", game=g, prune=prune, allow_slow=True)


def phases(tier):
    return [
        Phase("slow-rewarded-loops", enum=lambda: slow_cases(tier),
              note="values that need 10^3..10^5 sweeps; rewarded corridors of 130 (thorough: 360) states"),
        Phase("medium-size-games", enum=medium_phase(tier),
              note="stopping games of 20-300 states; reference = own Gauss-Seidel to 1e-12 on the rebuilt conditioned game"),
        Phase("tiny-positive-reach-values", enum=tiny_cases,
              note="states worth 1e-9..1e-6: positive, hence not dead, must survive conditioning"),
        Phase("repository-examples", enum=example_cases, note="inputs/*.py example games, consistency + exact if stopping"),
        Phase("stopping-games", strategy=lambda: stopping_cases(9 if tier == "quick" else 12), examples=(1500, 60000)),
        Phase("number-type-twins", strategy=number_type_twins, examples=(150, 5000),
              note="a pure-integer game beyond 2^53 solved right after its float-typed twin (equal under ==)"),
        Phase("sibling-pairs-back-to-back", strategy=sibling_cases, examples=(250, 10000),
              note="same transition lists, different rewards / owners, solved consecutively"),
        Phase("boards-consistency", strategy=lambda: board_cases(3, 3) if tier == "quick" else board_cases(4, 4),
              examples=(60, 1500)),
    ]


def sample_view(case):
    if case["kind"] in ("medium", "siblings"):
        return case
    if case["kind"] == "example":
        return dict(kind="example", file=case["file"], name=case["name"], prune=case["prune"],
                    n_states=len(case["game"]["players"]))
    return case


def residual_clause(v, game, res, prune, label):
    final, rs, rew, prob = res[0], res[1], res[2], res[3]
    cg = exact.conditioned_game(game, rs, prob, prune)
    scope = exact.forward_reachable(cg, 0) if prune else set(range(len(rew)))
    b = bellman_reward(cg, rew)
    worst, ws = 0.0, None
    for s in scope:
        d = abs(b[s] - rew[s])
        if d > worst:
            worst, ws = d, s
    slack = 1e-6 + 1e-9 * (1 + max([abs(x) for x in rew] + [0]))
    if worst > slack:
        v.fail("reward-not-a-fixed-point", f"{label}: state {ws}: reported {rew[ws]!r}, conditioned-game Bellman "
                                           f"step gives {b[ws]!r} (|diff|={worst:.3g} > threshold)",
               sig=game["players"][ws])
    return cg, scope


def check_case(case):
    v = Verdict()
    prune = case["prune"]
    v.cls("prune" if prune else "no_prune")
    g_ = case.get("game")
    if isinstance(g_, dict) and any(any(t != f for _, t in g_["transition_list"][f]) for f in set(g_["final_states"])):
        v.cls("non_absorbing_final_state")
    if case["kind"] == "medium":
        return check_medium(case, v)
    if case["kind"] == "siblings":
        v.cls("siblings_" + case["how"])
        for g in (case["first"], case["second"], case["first"]):
            w = check_case(dict(kind="game", game=g, prune=case["prune"]))
            v.fails.extend(w.fails)
            v.nontrivial = v.nontrivial or w.nontrivial
        return v
    if case["kind"] == "type_twins":
        v.cls("number_type_twins")
        game = case["game"]
        twin = games.copy_game(game)
        twin["rewards"] = [float(x) for x in twin["rewards"]]
        twin["transition_list"] = [[(float(a), t) if pl == PR else (a, t) for a, t in lst]
                                   for pl, lst in zip(twin["players"], twin["transition_list"])]
        solve(twin, prune, sweeps=200)                      # the float-typed twin goes first
        w = check_case(dict(kind="game", game=game, prune=prune, exact_integers=True))
        v.fails.extend(w.fails)
        v.nontrivial = True
        return v
    if case["kind"] == "board":
        gms = boards.games_from_board(case["board"])
        game = gms["game_" + case["variant"]]
        v.cls("board", "board_game_" + case["variant"])
        v.key = case
        o = solve(game, prune, sweeps=4000)
        if o.kind == "budget":
            v.inconclusive = "board solve exceeded 4000 sweeps (boards need not be stopping)"
            return v
        if o.kind == "nosol":
            v.cls("no_solution")
            return v
        if o.kind != "ok":
            v.inconclusive = "solve failed: " + o.kind
            v.fail("solve-raises", o.brief(), sig=o.kind + str(o.where))
            return v
        cg, scope = residual_clause(v, game, o.result, prune, "board")
        removed = sum(len(a) - len(b) for a, b in zip(game["transition_list"], cg["transition_list"]))
        if removed:
            v.cls("removed>=1")
        v.nontrivial = True
        return v

    game = case["game"]
    facts = GameFacts(game, allow_slow=bool(case.get("allow_slow")))
    if case["kind"] == "example":
        v.cls("example")
        v.key = dict(file=case["file"], name=case["name"], prune=prune)
        try:
            stopping = facts.stopping
        except OracleError:
            stopping = False
        if not stopping:
            v.cls("example_not_stopping")
            o = solve(game, prune, sweeps=20000)
            if o.kind == "ok":
                residual_clause(v, game, o.result, prune, f"{case['file']}:{case['name']}")
                v.nontrivial = True
            elif o.kind == "nosol":
                v.cls("no_solution")
            elif o.kind == "budget":
                v.inconclusive = "example solve exceeded 20000 sweeps"
            else:
                v.inconclusive = "example does not solve: " + o.kind
            return v
    try:
        if facts.too_slow:
            v.inconclusive = "T>300"
            return v
    except OracleError as e:
        v.inconclusive = f"oracle: {e}"
        return v
    a = Solved(facts, prune)
    o = a.outcome
    if o.kind == "nosol":
        v.cls("no_solution")
        return v
    if o.kind == "skipped":
        v.inconclusive = "conditioned game T_c > limit"
        return v
    if o.kind == "budget":
        v.inconclusive = "sweep budget exceeded (reported by C06)"
        return v
    if o.kind != "ok":
        v.fail("solve-raises", "a well-formed stopping game is not solved: " + o.brief(), sig=f"{o.kind}@{o.where}")
        return v
    label = f"solve(prune={prune})"
    try:
        cg, scope, rstar, Tc = a.cgame, a.scope, a.rstar, a.Tc
    except OracleError as e:
        # the conditioned game of a stopping game must be stopping (DESIGN 3/C02); if the REPORTED
        # probabilities/strategies make it otherwise, fall back to the residual form
        v.cls("conditioned_game_not_stopping")
        residual_clause(v, game, o.result, prune, label)
        v.inconclusive = f"oracle: {e}"
        return v
    removed = a.removed
    if removed:
        v.cls("removed>=1")
    nt = removed > 0
    if exact.has_cycle(cg):
        # cycle through a state with positive reward?
        from harness.exact import _sccs
        tl = [[t for _, t in l] for l in cg["transition_list"]]
        for comp in _sccs(range(facts.n), lambda s: tl[s]):
            if (len(comp) > 1 or comp[0] in tl[comp[0]]) and any(game["rewards"][s] > 0 for s in comp) \
                    and not all(exact.is_absorbing(cg, s) for s in comp):
                v.cls("rewarded_cycle")
                nt = True
                break
    for s in scope:
        if game["players"][s] == P2 and len({rstar[t] for _, t in cg["transition_list"][s]}) >= 2:
            v.cls("p2_reward_choice")
            nt = True
            break
    for s in scope:
        if game["players"][s] == P1 and len({rstar[t] for _, t in cg["transition_list"][s]}) >= 2:
            v.cls("p1_reward_choice")
            break
    v.nontrivial = nt
    for s in sorted(scope):
        rh, rs_ = a.rew[s], rstar[s]
        if not isinstance(rh, (int, float)) or rh != rh:
            v.fail("not-a-number", f"{label}: state {s} reports {rh!r}")
            continue
        allowed = tol(1e-6, Tc, rs_)
        if case.get("exact_integers") and (type(rh) is not int or rh != rs_):
            # integer rewards, integer probabilities, no loops: the solver's sums are exact integers
            v.fail("integer-game-not-exact", f"{label}: state {s} reports {rh!r} ({type(rh).__name__}), the game is in "
                                             f"pure integer arithmetic and the exact value is {rs_}", sig="exact")
            break
        if abs(rh - float(rs_)) > allowed:
            v.fail("reward-differs-from-conditioned-value",
                   f"{label}: state {s} ({game['players'][s]}) reports {rh!r}, exact value of the conditioned game "
                   f"{float(rs_)!r} ({rs_}); allowed {allowed:.3g} (T_c={float(Tc):.3g}); reach strategies "
                   f"{a.reach_strat}, probabilities {a.prob}", sig=game["players"][s])
            break
    if len(a.rew) != facts.n:
        v.fail("wrong-length", f"{label}: {len(a.rew)} rewards for {facts.n} states")
    return v
