"""C15 - random boards are reproducible, in range and honour their parameters; bad parameters are refused.

INV: shape, reward range and type, loose flags, allowed arrows, force-down rule,
loose-tile frequency (binomial 7-sigma bound); DIFF: the same call twice with the
global random state disturbed in between, and the command line twice, give
identical boards / identical file bytes.  Refusal: every boundary pair (last
refused, first accepted) of the eight range checks, through main().
"""
import math
import random as _random

from hypothesis import strategies as st

from harness import boards
from harness.load import repo
from harness.runner import Phase, Verdict

ID = "C15"
LEVEL = "exploration"
TECHNIQUE = ("property-based testing (Hypothesis) of generator parameters with range/shape/frequency invariants, "
             "run-twice differential for reproducibility, and enumerated boundary pairs for the eight range checks")
LEVEL_TEXT = ("Generated parameter tuples (seed to 1e18, sizes 1-60, max reward 1-5000, loose probability across (0,1), "
              "force-down on/off) through gen_rnd_board and through the command-line main(); large boards for the "
              "frequency clause; every boundary pair of the eight parameter checks plus far-out, signed-zero, infinite "
              "and NaN values enumerated. Exploration with an enumerated boundary core."
              " Added while validating sensitivity: sequences of 2-4 command-line runs in ONE directory whose parameters often map to the same file name; each run's file must equal what the same parameters write into an empty directory."
              ' Later rounds: refusals repeated in a directory without inputs/, the same request in a fresh interpreter, and the file written by main() must load into the games of gen_rnd_board(seed, ..., lt, ...) under the given break probabilities (frequencies and probabilities off the whole percents included).')
LEVEL_NOTE = ("Trusted: binomial 7-sigma + 1 bound for the loose-tile count (false-alarm probability < 1e-11 per case). The "
              "one-in-2^53 event random.random() == 0.0 (reward max+1) is not reachable by search and not claimed.")
RULE = ("case = ('board', parameters) | ('cli', parameters) | ('refuse', parameter overrides). Non-trivial = a boundary "
        "parameter value, or force-down, or a board with >= 10^4 tiles, or a refusal case. Distinct = different case.")
ASSUMPTIONS = ["loose tiles are independent Bernoulli(p) draws (what 'occur with the requested frequency' is tested against)",
               "argparse-level rejections (non-numeric text) are outside the property; only numeric values are passed"]
TINY = 5e-324
ALMOST1 = 1 - 2 ** -53


@st.composite
def board_cases(draw):
    seed = draw(st.one_of(st.integers(0, 100), st.integers(0, 10 ** 18)))
    length = draw(st.integers(1, 60))
    width = draw(st.integers(1, 60 if length <= 20 else 12))
    p = draw(st.one_of(st.sampled_from((0.3, 0.5, 0.01, 0.99, TINY, ALMOST1)), st.floats(0.001, 0.999)))
    m = draw(st.one_of(st.sampled_from((1, 2, 6, 60, 1000, 1022, 1023, 1024, 5000)), st.integers(1, 1100)))
    return dict(kind="board", seed=seed, length=length, width=width, p=p, max_reward=m, force_down=draw(st.booleans()))


@st.composite
def cli_cases(draw):
    big = draw(st.integers(0, 3)) == 0
    return dict(kind="cli", seed=draw(st.integers(0, 10 ** 9)), length=draw(st.integers(1, 12 if big else 5)),
                width=draw(st.integers(1, 12 if big else 5)),
                # requested loose-tile frequencies off the whole percents too (0.004 and 0.996 are legal)
                lt=draw(st.sampled_from((0.3, 0.5, 0.07, 0.93, 0.004, 0.996, 0.0049, 0.333, 0.625, 1e-9))),
                rb=draw(st.sampled_from((0.1, 0.5, 0.29, 0.004, 0.125))), lb=draw(st.sampled_from((0.1, 0.5, 0.57, 0.996))),
                tb=draw(st.sampled_from((0.1, 0.5, 0.58, 0.0049, 0.375))), max_reward=draw(st.sampled_from((1, 6, 40, 1023))),
                force_down=draw(st.booleans()))


@st.composite
def sequence_cases(draw):
    """2-4 command-line runs in the SAME directory; parameters often fall into the same file name
    (probabilities within one percent bucket), sometimes they are identical."""
    base = dict(seed=draw(st.integers(0, 30)), length=draw(st.integers(1, 5)), width=draw(st.integers(1, 5)),
                lt=draw(st.sampled_from((0.3, 0.5, 0.07))), rb=0.1, lb=0.1, tb=0.1,
                max_reward=draw(st.sampled_from((1, 6))), force_down=draw(st.booleans()))
    runs = [base]
    for _ in range(draw(st.integers(1, 3))):
        r = dict(runs[-1])
        what = draw(st.sampled_from(("lt_same_bucket", "lt_same_bucket", "tb_same_bucket", "same", "seed", "flag")))
        if what == "lt_same_bucket":
            r["lt"] = int(r["lt"] * 100) / 100 + draw(st.sampled_from((0.001, 0.004, 0.005, 0.009)))
        elif what == "tb_same_bucket":
            r["tb"] = 0.1 + draw(st.sampled_from((0.001, 0.005, 0.009)))
        elif what == "seed":
            r["seed"] = r["seed"] + 1
        elif what == "flag":
            r["force_down"] = not r["force_down"]
        runs.append(r)
    return dict(kind="sequence", runs=runs)


def history_cases(tier):
    """In-process history independence: a board requested after OTHER boards were generated in the same
    process (same seed and sizes, a nearby probability, another max reward ...) must equal the board a fresh
    interpreter produces for the same arguments."""
    def gen():
        k = 0
        for seed, n in ((7, 20), (3, 6), (11, 40)) if tier == "quick" else ((7, 20), (3, 6), (11, 40), (5, 12), (9, 64), (2, 33)):
            for p, q in ((0.30, 0.3099), (0.5, 0.504), (0.07, 0.0749), (0.3, 0.31)):
                for fd in (False, True):
                    k += 1
                    if tier == "quick" and k % 3:
                        continue
                    yield dict(kind="history", seed=seed, length=n, width=n, first_p=p, p=q, max_reward=6, force_down=fd)
    return gen


def big_boards(tier):
    def gen():
        for (seed, n, p, fd) in ((1, 200, 0.3, False), (2, 200, 0.05, True), (3, 150, 0.9, False)):
            yield dict(kind="board", seed=seed, length=n, width=n, p=p, max_reward=6, force_down=fd)
        if tier == "thorough":
            for seed in range(10, 22):
                yield dict(kind="board", seed=seed, length=300, width=300, p=(seed % 9 + 1) / 10, max_reward=6,
                           force_down=bool(seed % 2))
    return gen


BASE = dict(seed=3, width=2, length=2, rb=0.1, lb=0.1, tb=0.1, lt=0.3, max_reward=6)


def refusal_cases():
    pairs = {
        "seed": ([-1, -5, -10 ** 12], [0]),
        "width": ([0, -1, -100], [1]),
        "length": ([0, -1, -100], [1]),
        "max_reward": ([0, -1, -1000], [1]),
    }
    for prob in ("rb", "lb", "tb", "lt"):
        pairs[prob] = ([0.0, -0.0, -TINY, -1.0, 1.0, 1.0000000000000002, 2.0, float("inf"), float("-inf"),
                        float("nan")], [TINY, ALMOST1, 0.5])
    for name, (bad, good) in pairs.items():
        for val in bad:
            yield dict(kind="refuse", override={name: val}, expect="refused")
        for val in good:
            yield dict(kind="refuse", override={name: val}, expect="accepted")
    # several bad at once / a bad one after good ones
    yield dict(kind="refuse", override={"seed": -1, "width": 0}, expect="refused")
    yield dict(kind="refuse", override={"lt": 1.0, "tb": 0.0}, expect="refused")
    yield dict(kind="refuse", override={"max_reward": 0, "rb": 0.5}, expect="refused")
    yield dict(kind="refuse", override={"length": 0, "force_down": True}, expect="refused")
    yield dict(kind="refuse", override={"width": 0, "force_down": True}, expect="refused")


def phases(tier):
    return [Phase("parameter-boundaries", enum=refusal_cases, exhaustive=True,
                  note="last refused / first accepted value of each of the eight range checks, far-out values, -0.0, inf, nan"),
            Phase("big-boards-frequency", enum=big_boards(tier)),
            Phase("process-history-independence", enum=history_cases(tier),
                  note="a request made after related requests in the same process vs. the same request in a fresh interpreter"),
            Phase("random-boards", strategy=board_cases, examples=(1500, 60000)),
            Phase("command-line-twice", strategy=cli_cases, examples=(150, 4000)),
            Phase("command-line-sequences-one-directory", strategy=sequence_cases, examples=(120, 4000),
                  note="what a run writes must not depend on what earlier runs left in inputs/")]


def check_board(case, v):
    r = repo()
    rg = r.roberta_generator
    seed, L, W, p, m, fd = case["seed"], case["length"], case["width"], case["p"], case["max_reward"], case["force_down"]
    N = L * W
    nt = fd or N >= 10 ** 4 or p in (TINY, ALMOST1) or m >= 1022 or L == 1 or W == 1
    v.nontrivial = nt
    if fd:
        v.cls("force_down")
    if N >= 10 ** 4:
        v.cls("tiles>=1e4")
    if m >= 1023:
        v.cls("max_reward>=1023")
    if L == 1 or W == 1:
        v.cls("one_row_or_column")
    try:
        b1 = rg.gen_rnd_board(seed, L, W, p, m, fd)
    except Exception as e:
        v.fail("generator-raises", f"gen_rnd_board(seed={seed}, length={L}, width={W}, p={p!r}, max_reward={m}, "
                                   f"force_down={fd}) raised {type(e).__name__}: {e}", sig=type(e).__name__)
        return
    if not isinstance(b1, tuple) or len(b1) != 3:
        v.fail("board-shape", f"returned {type(b1).__name__}")
        return
    moves, rewards, loose = b1
    for name, mat in (("moves", moves), ("rewards", rewards), ("loose_tiles", loose)):
        if len(mat) != L or any(len(row) != W for row in mat):
            v.fail("board-shape", f"{name} is {len(mat)} x {[len(x) for x in mat][:3]}, requested {L} x {W}", sig=name)
            return
    for i in range(L):
        for j in range(W):
            x = rewards[i][j]
            if isinstance(x, bool) or not isinstance(x, int) or x < 0 or x > m:
                v.fail("reward-out-of-range", f"reward {x!r} at ({i},{j}) with max reward {m}")
                return
            if loose[i][j] not in (0, 1) or isinstance(loose[i][j], bool):
                v.fail("loose-flag-invalid", f"loose flag {loose[i][j]!r} at ({i},{j})")
                return
            a = moves[i][j]
            if a not in ((0, 1, 2, 3) if fd else (0, 1, 2)) or isinstance(a, bool):
                v.fail("arrow-not-allowed", f"arrow {a!r} at ({i},{j}) with force_down={fd}", sig=str(fd))
                return
        if fd and 3 not in moves[i]:
            v.fail("force-down-row-without-down-only", f"row {i} = {moves[i]} has no down-only tile")
            return
    k = sum(map(sum, loose))
    bound = 7 * math.sqrt(N * p * (1 - p)) + 1
    if abs(k - N * p) > bound:
        v.fail("loose-frequency", f"{k} loose tiles of {N} with p={p!r}: expected {N * p:.1f} +- {bound:.1f}")
    # reproducibility with the global random state disturbed in between
    _random.seed(987654321 + seed % 1000)
    _random.random()
    b2 = rg.gen_rnd_board(seed, L, W, p, m, fd)
    if b2 != b1:
        v.fail("not-reproducible", f"two calls with seed={seed} length={L} width={W} p={p!r} max_reward={m} "
                                   f"force_down={fd} gave different boards")
    if N >= 16 and 0.05 < p < 0.95:
        b3 = rg.gen_rnd_board(seed + 1, L, W, p, m, fd)
        if b3 == b1:
            v.fail("seed-ignored", f"seeds {seed} and {seed + 1} give the same {L}x{W} board")


def loaded(files):
    """What the solver's reader makes of the written files ({name: dict}); comments in the file are not the
    property's business, the games are."""
    import os
    r = repo()
    out = {}
    for name, data in files.items():
        path = os.path.join(boards.scratch_dir(), "inputs", "__load__" + name)
        with open(path, "wb") as f:
            f.write(data)
        try:
            out[name] = r.conditionalrewards.read_dict_from_file(path)
        except Exception as e:
            out[name] = f"unloadable: {type(e).__name__}"
        finally:
            os.remove(path)
    return out


def check_cli(case, v):
    args = boards.cli_args(case["seed"], case["width"], case["length"], case["rb"], case["lb"], case["tb"], case["lt"],
                           case["max_reward"], case["force_down"])
    v.nontrivial = True
    v.cls("cli")
    k1, e1, f1 = boards.run_generator_cli(args)
    _random.seed(5)
    k2, e2, f2 = boards.run_generator_cli(args)
    if k1 != "ok" or k2 != "ok":
        e = e1 if k1 != "ok" else e2
        v.fail("generator-raises", f"main({' '.join(args)}) failed: {type(e).__name__}: {e}", sig=type(e).__name__)
        return
    if len(f1) != 1:
        v.fail("cli-file-count", f"main({' '.join(args)}) left files {sorted(f1)}")
        return
    l1 = loaded(f1)
    if f1 != f2 and l1 != loaded(f2):
        v.fail("not-reproducible", f"main({' '.join(args)}) twice: different file names or different games "
                                   f"({sorted(f1)} vs {sorted(f2)})")
        return
    # the command line draws the board of exactly these parameters: the written games are the games of
    # gen_rnd_board(seed, length, width, lt, max_reward, force_down) under the three break probabilities given
    if case["lt"] not in (0.3, 0.5, 0.07, 0.93):
        v.cls("cli_frequency_off_whole_percent")
    want = boards.games_from_board(boards.random_board(case["seed"], case["length"], case["width"], case["lt"],
                                                       case["max_reward"], case["force_down"], case["tb"], case["rb"],
                                                       case["lb"]))
    got = next(iter(l1.values()))
    if got != want:
        which = [k for k in want if not isinstance(got, dict) or got.get(k) != want[k]]
        v.fail("cli-board-differs-from-parameters",
               f"main({' '.join(args)}) wrote games that are not those of the board drawn from these parameters "
               f"(differing: {which[:3]})")


def check_refuse(case, v):
    p = dict(BASE)
    fd = case["override"].get("force_down", False)
    p.update({k: x for k, x in case["override"].items() if k != "force_down"})
    args = boards.cli_args(p["seed"], p["width"], p["length"], p["rb"], p["lb"], p["tb"], p["lt"], p["max_reward"], fd)
    v.nontrivial = True
    v.cls("refusal_" + case["expect"])
    kind, e, files = boards.run_generator_cli(args)
    if case["expect"] == "refused":
        if kind == "ok":
            v.fail("bad-parameters-accepted", f"main({' '.join(args)}) ran to completion and wrote {sorted(files)}",
                   sig="+".join(sorted(case["override"])))
        elif kind == "exit" or not isinstance(e, ValueError):
            v.fail("bad-parameters-wrong-error", f"main({' '.join(args)}) raised {type(e).__name__}: {e}",
                   sig=type(e).__name__)
        if files:
            v.fail("refused-but-wrote", f"main({' '.join(args)}) left {sorted(files)} behind", sig="files")
        # the same refusal in a working directory that does not even have an inputs/ directory: still nothing
        # may be created
        k2, e2, listing = boards.run_generator_cli_bare(args)
        if listing:
            v.fail("refused-but-wrote", f"main({' '.join(args)}) in an empty directory was refused but left "
                                        f"{listing} behind", sig="empty-dir")
        elif k2 == "ok" or (k2 == "exc" and not isinstance(e2, ValueError)):
            v.fail("bad-parameters-wrong-error", f"main({' '.join(args)}) in an empty directory: "
                                                 f"{type(e2).__name__ if e2 else 'accepted'}: {e2}", sig="empty-dir")
    else:
        if kind != "ok":
            v.fail("good-parameters-refused", f"main({' '.join(args)}) raised {type(e).__name__}: {e}",
                   sig="+".join(sorted(case["override"])))
        elif len(files) != 1:
            v.fail("cli-file-count", f"main({' '.join(args)}) left files {sorted(files)}")


def check_sequence(case, v):
    """Each run's file must hold exactly what the same parameters give in an empty directory."""
    v.nontrivial = True
    v.cls("sequence")
    def argv(p):
        return boards.cli_args(p["seed"], p["width"], p["length"], p["rb"], p["lb"], p["tb"], p["lt"], p["max_reward"],
                               p["force_down"])
    fresh = []
    for p in case["runs"]:
        k, e, files = boards.run_generator_cli(argv(p))
        if k != "ok" or len(files) != 1:
            v.fail("generator-raises", f"main({' '.join(argv(p))}) failed or wrote {sorted(files)}: {e}")
            return
        fresh.append(next(iter(files.items())))
    names = [n for n, _ in fresh]
    if len(set(names)) < len(names):
        v.cls("runs_share_a_file_name")
    boards.clean_scratch()
    for i, p in enumerate(case["runs"]):
        k, e, files = boards.run_generator_cli(argv(p), clean=False)
        name, want = fresh[i]
        if k != "ok":
            v.fail("generator-raises", f"run {i + 1} of the sequence, main({' '.join(argv(p))}): {type(e).__name__}: {e}")
            return
        if files.get(name) != want and loaded({name: files.get(name, b"")}) != loaded({name: want}):
            v.fail("output-depends-on-earlier-runs", f"run {i + 1} of {len(case['runs'])} in one directory, "
                                                     f"main({' '.join(argv(p))}): {name} differs from what the same "
                                                     f"parameters write into an empty directory (earlier runs: "
                                                     f"{[' '.join(argv(q)) for q in case['runs'][:i]]})")
            return


def check_history(case, v):
    import json
    import subprocess
    import sys
    r = repo()
    rg = r.roberta_generator
    v.nontrivial = True
    v.cls("history")
    args = (case["seed"], case["length"], case["width"], case["p"], case["max_reward"], case["force_down"])
    # related requests first, in this process
    rg.gen_rnd_board(case["seed"], case["length"], case["width"], case["first_p"], case["max_reward"], case["force_down"])
    rg.gen_rnd_board(case["seed"], case["length"], case["width"], case["first_p"], case["max_reward"] + 1, case["force_down"])
    here = rg.gen_rnd_board(*args)
    code = ("import sys, json; sys.path.insert(0, sys.argv[1]); import roberta_generator as rg; "
            "a = json.loads(sys.argv[2]); print(json.dumps(rg.gen_rnd_board(*a)))")
    p = subprocess.run([sys.executable, "-B", "-c", code, r.path, json.dumps(list(args))], capture_output=True, text=True,
                       timeout=300, env={"PYTHONHASHSEED": "0", "PATH": "/usr/bin:/bin"})
    if p.returncode != 0:
        v.inconclusive = "fresh interpreter failed: " + p.stderr[-200:]
        return
    fresh = json.loads(p.stdout)
    if [list(map(list, m)) for m in here] != fresh:
        diff = sum(1 for a, b in zip(sum(here[2], []), sum(fresh[2], [])) if a != b)
        v.fail("board-depends-on-process-history", f"gen_rnd_board{args} called after gen_rnd_board(..., "
                                                   f"prob_loose_tile={case['first_p']}, ...) in the same process differs "
                                                   f"from the same call in a fresh interpreter ({diff} loose flags differ)")


def check_case(case):
    v = Verdict()
    {"board": check_board, "cli": check_cli, "refuse": check_refuse, "sequence": check_sequence,
     "history": check_history}[case["kind"]](case, v)
    return v
