"""C01 - reported reachability probabilities are the max-min game values.

Oracles: REF exact max-min reachability in Fractions (enumeration of strategy
pairs for arbitrary games, strategy iteration for stopping games); INV Jacobi
residual and k-step lower bound with the harness's own Bellman operator; DIFF
pruning on/off; for large boards an independent Jacobi iteration to 1e-13.
"""
from fractions import Fraction as F

from hypothesis import strategies as st

from harness import boards, exact, games
from harness.analysis import (GameFacts, Solved, bellman_reach, jacobi_reach, sweep_bound, tol, T_MAX)
from harness.budget import BudgetExceeded, sweep_budget
from harness.exact import OracleError
from harness.games import P1, P2, PR, copy_game
from harness.load import repo
from harness.runner import Phase, Verdict
from harness.sut import SkipSolve, classify_exception, wants_file_route

ID = "C01"
LEVEL = "exploration"
TECHNIQUE = ("property-based testing (Hypothesis) against an exact rational max-min reachability solver; "
             "differential pruning on/off; residual and k-step bounds for non-stopping and large games")
LEVEL_TEXT = ("Generated-input search over arbitrary small games (end components, player-only cycles, several and "
              "non-absorbing finals) x solver threshold, constructed stopping games x pruning mode, planted slow "
              "cycles, and generator boards; every small case is decided against an exact rational solver with the "
              "tightest tolerance the code is entitled to (threshold x (T+1), T the exact maximal expected absorption "
              "time), and one-sidedness is checked with rounding slack only. Large boards are held to the weaker "
              "consistency clauses and labelled so. Exploration is the right level: all games is an infinite domain, "
              "the oracle is exact on what is generated."
              " Added while validating sensitivity: medium-size stopping games (20-8200 states, three numbering schemes) decided by the harness's own value iteration from below and from above (a sound bracket), deep corridors (60-1030 states) and very slow loops whose exact values are known by construction, boards beyond 1024 and 2048 states, and the residual clause on every game."
              " Later rounds: for a quarter of the solve-route cases the batch driver is called too and its two entries must carry identical probabilities; a quarter of all solves reach the solver through an input file and the repository's reader.")
LEVEL_NOTE = ("Trusted: harness/exact.py (cross-checked by the oracle self-test: strategy iteration == enumeration), "
              "the tolerance argument of DESIGN 2.4 (Gauss-Seidel stop rule => Jacobi residual <= threshold => error "
              "<= threshold x T on stopping games). Exact oracle limited to <= 256 (quick) / 4096 (thorough) strategy "
              "pairs on arbitrary games and ~16 states on stopping games.")
RULE = ("case = game x API (Solver with drawn threshold / StochasticGame.solve in both modes). Families: arbitrary games "
        "3-8 states; constructed stopping games; planted slow probabilistic cycles; generator boards (tiny: exact "
        "oracle, larger: consistency only). Non-trivial = the game has a directed cycle through a non-absorbing "
        "state, or a Player 2 state with two actions of different exact value, or >= 2 final states. "
        "Distinct = different (game, API, threshold).")
ASSUMPTIONS = ["closeness clause on stopping games uses T = exact maximal expected absorption time; games with "
               f"T > {T_MAX} are counted as inconclusive for closeness (the other clauses still apply)",
               "rounding slack 1e-12 absolute for 'never exceeds the true value'"]
CLASS_FLOORS = {"cycle": 0.15, "p2_real_choice": 0.1}
SLACK = 1e-12
THETAS = (1e-3, 5e-4, 1e-4, 1e-5, 1e-6, 1e-7, 1e-8, 1e-9)


# ----------------------------------------------------------------------------- generators
def slow_cycle(k, q_num, tail_owner, numbering_rev):
    """A chain of k probabilistic states that restarts with probability 1-q at every step:
    the value of state 0 needs ~q^-k sweeps.  A Player 2 state in front chooses between the
    chain and a fixed lottery so the value matters."""
    q = q_num / 8
    n = k + 4
    final, sink, lot = k + 1, k + 2, k + 3
    players = [PR] * k + [tail_owner, PR, PR, PR]
    tl = []
    for i in range(k):
        nxt = i + 1
        tl.append([(1 - q - 0.125, 0), (q, nxt), (0.125, sink)] if q + 0.125 < 1 else [(q, nxt), (1 - q, sink)])
    if tail_owner == PR:
        tl.append([(0.5, final), (0.5, sink)])
    else:
        tl.append([("a", final), ("b", lot)])
    tl += [[(1, final)], [(1, sink)], [(0.75, final), (0.25, sink)]]
    g = dict(rewards=[0] * n, players=players, transition_list=tl, final_states=[final])
    if numbering_rev:   # renumber inner chain states in reverse so Gauss-Seidel propagates slowly
        perm = {0: 0}
        for i in range(1, k + 1):
            perm[i] = k + 1 - i
        for i in range(k + 1, n):
            perm[i] = i
        inv = {v: kk for kk, v in perm.items()}
        g = dict(rewards=[0] * n, players=[players[inv[i]] for i in range(n)],
                 transition_list=[[(l, perm[t]) for l, t in tl[inv[i]]] for i in range(n)],
                 final_states=[perm[final]])
    return g


def very_slow_reach():
    """A self-loop that reaches the final state with probability eps per step: the reachability loop alone
    needs 4 x 10^4 (eps = 1/8192) to 2.3 x 10^5 (eps = 1e-5) sweeps.  Solver API only (no reward phase)."""
    for eps in (1 / 8192, 1e-5):
        for owner in (P1, P2):
            g = dict(rewards=[0, 0, 0, 0], players=[owner, PR, PR, PR],
                     transition_list=[[("a", 2), ("b", 3)], [(1, 1)], [(1 - eps, 2), (eps, 1)], [(0.5, 1), (0.5, 3)]],
                     final_states=[1])
            yield dict(kind="solver", game=g, theta=1e-6)


def corridor_cases():
    for game, vals, T in games.corridor_games():
        yield dict(kind="solver", game=game, theta=1e-6, known=dict(pstar=vals, T=T))


def coarse_threshold_rings():
    """Planted: a ring of N mixed states numbered against the direction of travel, left towards the goal with
    probability 3/4 per lap, solved with COARSE thresholds (0.01, 0.05, 0.002): the value moves one state per
    sweep, so several laps - far more than 1/threshold sweeps - are needed although every value is 1."""
    from fractions import Fraction as F
    for N, theta in ((300, 0.01), (120, 0.05), (300, 0.002)):
        goal, sink = N + 1, N + 2
        players, tl = [P1], [[("enter", 1)]]
        # ring states 1..N; travel goes 1 -> 2 -> ... -> N -> (exit or back to 1): a state's successor is swept
        # AFTER it, so a sweep in ascending order moves the goal's information back by one state only
        for k in range(1, N + 1):
            if k == N:
                players.append(PR)
                tl.append([(0.75, goal), (0.25, 1)])
            else:
                players.append((PR, P1, P2)[k % 3])
                tl.append([(1, k + 1)] if players[-1] == PR else [("go", k + 1)])
        players += [PR, PR]
        tl += [[(1, goal)], [(1, sink)]]
        n = len(players)
        game = dict(rewards=[0] * n, players=players, transition_list=tl, final_states=[goal])
        vals = [F(1)] * n
        vals[sink] = F(0)
        for sprune in (False, True):
            yield dict(kind="solver", game=game, theta=theta, sprune=sprune, known=dict(pstar=vals, T=F(4 * N, 3) + 2))


def finals_into_dead():
    """Planted: a final state that is NOT absorbing and whose successors are all dead (value 0), next to an absorbing
    final; the conditioned game empties such a state, its reported probability stays exactly 1 in both modes."""
    for init_owner in (P1, P2, PR):
        for fin_owner in (PR, P1, P2):
            for width in (1, 2):
                # 0 initial, 1/2 lotteries, 3 final (not absorbing), 4 final (absorbing), 5/6 sinks
                first = [(0.5, 1), (0.5, 2)] if init_owner == PR else [("a", 1), ("b", 2)]
                targets = [5, 6][:width]
                out = [(1 / width, t) for t in targets] if fin_owner == PR else [("xy"[i], t) for i, t in enumerate(targets)]
                g = dict(rewards=[0, 1, 2, 0, 0, 0, 0], players=[init_owner, PR, PR, fin_owner, PR, PR, PR],
                         transition_list=[first, [(0.5, 3), (0.5, 5)], [(0.25, 4), (0.75, 6)], out, [(1, 4)], [(1, 5)],
                                          [(1, 6)]],
                         final_states=[3, 4])
                v0 = {P1: 0.5, P2: 0.25, PR: 0.375}[init_owner]
                for prune in (True, False):
                    yield dict(kind="final_dead", game=g, prune=prune, expect=[v0, 0.5, 0.25, 1, 1, 0, 0])


def check_final_dead(case, v):
    """Acyclic by construction, so the values are exact after a handful of sweeps; compared with the hand-derived ones."""
    from harness.sut import solve as sut_solve
    game, prune = case["game"], case["prune"]
    v.nontrivial = True
    v.cls("non_absorbing_final", "final_with_only_dead_successors", "api_solve", "prune" if prune else "no_prune")
    o = sut_solve(game, prune, sweeps=2000)
    lab = f"solve(prune={prune}) on {game}"
    if o.kind != "ok":
        v.fail("solver-raises", f"{lab}: {o.brief()}", sig=o.kind)
        return v
    for s, (ph, want) in enumerate(zip(o.result[3], case["expect"])):
        if want in (0, 1):
            if ph != want or isinstance(ph, bool):
                v.fail("final-not-1" if want == 1 else "unreaching-not-0", f"{lab}: state {s} reports {ph!r}, must be {want}")
        elif not isinstance(ph, (int, float)) or abs(ph - want) > 1e-9:
            v.fail("value-differs", f"{lab}: state {s} reports {ph!r}, exact value {want}")
    return v


def planted_cases():
    yield from finals_into_dead()
    yield from very_slow_reach()
    yield from corridor_cases()
    yield from coarse_threshold_rings()
    for k in (2, 4, 6, 8):
        for q_num in (2, 4, 6):
            for owner in (PR, P1, P2):
                for rev in (False, True):
                    g = slow_cycle(k, q_num, owner, rev)
                    for prune in (True, False):
                        yield dict(kind="solve", game=g, prune=prune)
                    yield dict(kind="solver", game=g, theta=1e-6)
                    yield dict(kind="solver", game=g, theta=1e-3)


@st.composite
def any_cases(draw, max_pairs=256):
    g = draw(games.any_games(max_states=8, max_pairs=max_pairs))
    return dict(kind="solver", game=g, theta=draw(st.sampled_from(THETAS)), sprune=draw(st.booleans()))


@st.composite
def stopping_cases(draw, max_inner=10):
    g = draw(games.stopping_games(min_inner=2, max_inner=max_inner))
    if draw(st.integers(0, 3)) == 0:
        return dict(kind="solver", game=g, theta=draw(st.sampled_from(THETAS)))
    return dict(kind="solve", game=g, prune=games.coin(draw))


@st.composite
def sibling_cases(draw):
    """Two games solved back to back in one process that look alike to anything keyed on part of the
    description: the second has the same transition lists as the first and differs only in the owners of some
    states, or only in the final states, or only in the probabilities (same targets).  Each is compared with
    its OWN exact values; a memo / cache carried over from the first solve shows up in the second."""
    g = draw(games.stopping_games(min_inner=2, max_inner=8, dyadic=True))
    how = draw(st.sampled_from(("owners", "owners", "finals", "probabilities")))
    h = copy_game(g)
    n = len(g["players"])
    if how == "owners":
        idx = [s for s in range(n) if g["players"][s] in (P1, P2)]
        if idx:
            for s in draw(st.lists(st.sampled_from(idx), min_size=1, max_size=len(idx), unique=True)):
                h["players"][s] = P2 if g["players"][s] == P1 else P1
    elif how == "finals":
        absorbing = [s for s in range(n) if exact.is_absorbing(g, s)]
        h["final_states"] = draw(st.lists(st.sampled_from(absorbing), min_size=1, max_size=len(absorbing), unique=True))
    else:
        for s in range(n):
            lst = h["transition_list"][s]
            if g["players"][s] == PR and len(lst) >= 2:
                ps = [p for p, _ in lst]
                ps = ps[1:] + ps[:1]
                h["transition_list"][s] = [(p, t) for p, (_, t) in zip(ps, lst)]
    return dict(kind="siblings", first=g, second=h, how=how, prune=games.coin(draw))


@st.composite
def tiny_board_cases(draw):
    b = draw(boards.boards(max_len=2, max_wid=2, max_tiles=3))
    return dict(kind="board", board=b, variant=draw(st.sampled_from("abc")), exact=True)


@st.composite
def board_cases(draw, max_len=4, max_wid=4):
    b = draw(boards.boards(max_len=max_len, max_wid=max_wid))
    return dict(kind="board", board=b, variant=draw(st.sampled_from("abc")), exact=False)


def big_boards(tier):
    def gen():
        specs = [(7, 5, 5, False, "abc"), (11, 6, 4, True, "abc"),
                 (3, 10, 11, True, "c"), (5, 16, 16, False, "a")]          # > 1024 states (block sizes, caches)
        if tier != "quick":
            specs += [(47, 5, 10, False, "abc"), (40, 10, 20, True, "abc"), (3, 60, 3, True, "abc"),
                      (9, 21, 10, False, "c"), (13, 10, 42, True, "c")]     # > 2048 / 4096 states
        for seed, length, width, fd, variants in specs:
            b = boards.random_board(seed, length, width, 0.3, 6, fd)
            for variant in variants:
                yield dict(kind="board", board=b, variant=variant, exact=False)
    return gen


def medium_phase(tier):
    from harness import medium
    def gen():
        for c in medium.medium_cases(27 if tier == "quick" else 360, base_seed=1):
            yield dict(kind="medium", seed=c["seed"], n_inner=c["n_inner"])
    return gen


def check_medium(case, v):
    """Games of 20-300 states: bracket oracle (own Gauss-Seidel from below and from above), residual,
    pruning on/off differential."""
    from harness import medium
    from harness.analysis import bellman_reach
    game = medium.medium_game(case["seed"], case["n_inner"])
    n = len(game["players"])
    v.key = case
    v.cls("medium", f"medium_states<={64 if n <= 64 else 128 if n <= 128 else 320}")
    v.nontrivial = True
    L, U, pos = medium.bracket_reach(game)
    finals = set(game["final_states"])
    res = {}
    for prune in (True, False):
        o, info = medium.solve_medium(game, prune)
        if o is None:
            v.inconclusive = info
            return v
        res[prune] = o
        lab = f"medium game (seed={case['seed']}, {n} states) solve(prune={prune})"
        if o.kind == "nosol":
            v.cls("no_solution")
            if not prune or 0 in pos and U[0] > 1e-5:
                v.fail("nosol-but-positive", f"{lab} raised no-solution; value of state 0 is in [{L[0]!r}, {U[0]!r}]")
            continue
        if o.kind in ("budget", "skipped"):
            v.inconclusive = "sweep budget / T_c limit (reported by C06)"
            continue
        if o.kind != "ok":
            v.fail("solve-raises", f"{lab}: {o.brief()}", sig=o.kind)
            continue
        phat = o.result[3]
        T = info["T"]
        b = bellman_reach(game, phat)
        worst = max(abs(x - y) for x, y in zip(b, phat))
        if worst > 1e-6 + SLACK:
            v.fail("residual-above-threshold", f"{lab}: |B p - p| = {worst:.3g} > 1e-6")
        for s in range(n):
            if s in finals:
                if phat[s] != 1:
                    v.fail("final-not-1", f"{lab}: final state {s} reports {phat[s]!r}")
            elif s not in pos:
                if phat[s] > SLACK:
                    v.fail("exceeds-true-value", f"{lab}: state {s} is worth 0 but reports {phat[s]!r}", sig="zero")
                    break
            elif phat[s] > U[s] + 1e-9:
                v.fail("exceeds-true-value", f"{lab}: state {s} reports {phat[s]!r} > upper bound {U[s]!r}", sig="pos")
                break
            elif L[s] - phat[s] > 1e-6 * (T * 1.01 + 2) + 1e-9:
                v.fail("too-far-below", f"{lab}: state {s} reports {phat[s]!r}, lower bound {L[s]!r}, "
                                        f"allowed gap {1e-6 * (T * 1.01 + 2):.3g} (T^={T:.3g})")
                break
    a, b2 = res.get(True), res.get(False)
    if a is not None and b2 is not None and a.kind == "ok" and b2.kind == "ok" and a.result[3] != b2.result[3]:
        v.fail("prune-changes-probabilities", "medium game: probabilities differ between pruning modes")
    return v


def phases(tier):
    mp = 256 if tier == "quick" else 4096
    return [
        Phase("medium-size-games-bracket", enum=medium_phase(tier),
              note="stopping games of 20-300 states, own value iteration from below and above as reference"),
        Phase("planted-slow-cycles", enum=planted_cases, note="values that need many sweeps"),
        Phase("arbitrary-games", strategy=lambda: any_cases(max_pairs=mp), examples=(1200, 40000)),
        Phase("stopping-games", strategy=lambda: stopping_cases(10 if tier == "quick" else 13), examples=(1200, 40000)),
        Phase("sibling-pairs-back-to-back", strategy=sibling_cases, examples=(300, 12000),
              note="same transition lists, different owners / finals / probabilities, solved consecutively"),
        Phase("tiny-boards-exact", strategy=tiny_board_cases, examples=(60, 1500)),
        Phase("boards-consistency", strategy=board_cases, examples=(40, 600)),
        Phase("big-boards-consistency", enum=big_boards(tier)),
    ]


def sample_view(case):
    if "known" in case:
        return dict(kind=case["kind"], theta=case.get("theta"), n_states=len(case["game"]["players"]),
                    first_states=case["game"]["transition_list"][:6], note="deep corridor, abbreviated")
    return case


# ----------------------------------------------------------------------------- the check
class ReachLoopTooLong(Exception):
    """The reachability loop exceeded a (very generous) sweep cap; carries the values reached so far."""

    def __init__(self, values, sweeps):
        super().__init__(f"more than {sweeps} sweeps")
        self.values, self.sweeps = values, sweeps


REACH_SWEEP_CAP = 600000


def run_solver_api(game, theta, prune=False):
    """check_game + init_states + Solver(threshold).solve_reachability; returns (p_hat, sweeps).
    The loop is capped: iteration from below is monotone and converges on every game, but a broken
    loop may not, and then the values reached so far are still examined."""
    r = repo()
    tad = r.tad
    g = copy_game(game)
    n = len(game["players"])
    state_list = None
    try:
        with sweep_budget(tad, REACH_SWEEP_CAP, n):
            sg = tad.StochasticGame(**g)
            sg.check_game()
            state_list = sg.init_states()
            solver = tad.Solver(state_list=state_list, threshold=theta)
            try:
                _, sweeps = solver.solve_reachability(g["transition_list"], g["final_states"], prune)
            except ValueError as e:
                if prune and "no solution" in str(e).lower():
                    return [s.reach_probability for s in state_list], None
                raise
            return [s.reach_probability for s in state_list], sweeps
    except BudgetExceeded:
        raise ReachLoopTooLong([s.reach_probability for s in state_list] if state_list else None, REACH_SWEEP_CAP)


def classify(v, game, facts, pstar):
    nt = False
    if facts.has_cycle:
        v.cls("cycle")
        nt = True
    if len(set(game["final_states"])) >= 2:
        v.cls("multi_final")
        nt = True
    if any(not exact.is_absorbing(game, f) for f in game["final_states"]):
        v.cls("non_absorbing_final")
    if pstar is not None:
        for s, (pl, lst) in enumerate(zip(game["players"], game["transition_list"])):
            if pl == P2 and len({pstar[t] for _, t in lst}) >= 2:
                v.cls("p2_real_choice")
                nt = True
                break
        for s, (pl, lst) in enumerate(zip(game["players"], game["transition_list"])):
            if pl == P1 and len({pstar[t] for _, t in lst}) >= 2:
                v.cls("p1_real_choice")
                break
    try:
        if facts.stopping is False:
            v.cls("not_stopping")
            if any(len(c) > 1 or not exact.is_absorbing(game, next(iter(c))) for c in exact.end_components(game)):
                v.cls("end_component")
                nt = True
    except OracleError:
        pass
    return nt


def compare_exact(v, game, facts, phat, pstar, theta, sweeps, label):
    n = len(phat)
    finals = set(game["final_states"])
    back = facts.back
    stopping = facts.stopping
    T = None
    if stopping:
        T = facts.T
        if facts.too_slow:
            v.cls("T>300")
    jac = None
    # the stop rule (largest change of a Gauss-Seidel sweep <= theta) implies a Jacobi residual <= theta
    # on every game, stopping or not
    if all(isinstance(x, (int, float)) and x == x for x in phat):
        res0 = bellman_reach(game, phat)
        worst0 = max(abs(a - b) for a, b in zip(res0, phat))
        if worst0 > theta + SLACK:
            v.fail("residual-above-threshold", f"{label}: |B p - p| = {worst0:.3g} > theta = {theta}")
    for s in range(n):
        ph, ps = phat[s], pstar[s]
        if s in finals:
            if ph != 1:
                v.fail("final-not-1", f"{label}: final state {s} reports {ph!r}")
            continue
        if s not in back:
            if ph != 0:
                v.fail("unreaching-not-0", f"{label}: state {s} has no path to a final state but reports {ph!r}")
            continue
        if not isinstance(ph, (int, float)) or ph != ph:
            v.fail("not-a-number", f"{label}: state {s} reports {ph!r}")
            continue
        if ph > float(ps) + SLACK:
            v.fail("exceeds-true-value", f"{label}: state {s} reports {ph!r} > exact {float(ps)!r} ({ps})",
                   sig="zero" if ps == 0 else "pos")
            continue
        if stopping:
            if not facts.too_slow and float(ps) - ph > tol(theta, T, ps):
                v.fail("too-far-below", f"{label}: state {s} reports {ph!r}, exact {float(ps)!r}, "
                                        f"allowed gap theta*(T+1)={tol(theta, T, ps):.3g} (theta={theta}, T={float(T):.3g})")
        else:
            if jac is None:
                # k-step lower bound: a Gauss-Seidel sweep from below dominates a Jacobi sweep.  The reported sweep
                # count is not part of this property, so two sweeps of slack are left for other counting conventions.
                jac, _ = jacobi_reach(game, sweeps=max(0, sweeps - 2))
            if ph < jac[s] - SLACK:
                v.fail("below-k-step-value", f"{label}: state {s} reports {ph!r} after {sweeps} sweeps, "
                                             f"below the {sweeps}-step value {jac[s]!r}")


def check_small(case, v):
    game = case["game"]
    facts = GameFacts(game, known=case.get("known"))
    if "known" in case:
        v.key = dict(n=len(game["players"]), first=game["transition_list"][:8], owner=game["players"][0])
    try:
        pstar = facts.pstar
    except OracleError as e:
        v.inconclusive = f"oracle: {e}"
        return v
    v.nontrivial = classify(v, game, facts, pstar)
    n = facts.n
    if case["kind"] == "solver":
        theta = case["theta"]
        v.cls("api_solver", f"theta={theta:g}")
        sprune = bool(case.get("sprune"))
        try:
            phat, sweeps = run_solver_api(game, theta, sprune)
        except ReachLoopTooLong as e:
            # still running after 600 000 sweeps: not a verdict by itself (slow games exist), but the values
            # reached so far must already respect "finals report 1" and "never above the true value"
            v.inconclusive = "reachability loop still running after 600000 sweeps"
            if e.values is not None:
                finals = set(game["final_states"])
                for s_, ph in enumerate(e.values):
                    if s_ in finals and ph != 1:
                        v.fail("final-not-1", f"Solver(threshold={theta:g}): final state {s_} holds {ph!r} after "
                                              f"{e.sweeps} sweeps (loop still running)")
                        break
                    if isinstance(ph, (int, float)) and ph > float(pstar[s_]) + SLACK:
                        v.fail("exceeds-true-value", f"Solver(threshold={theta:g}): state {s_} holds {ph!r} > exact "
                                                     f"{float(pstar[s_])!r} after {e.sweeps} sweeps (loop still running)",
                               sig="running")
                        break
            return v
        except Exception as e:
            o = classify_exception(e)
            v.fail("solver-raises", o.brief(), sig=f"{type(e).__name__}@{o.where}")
            return v
        label = f"Solver(threshold={theta:g}, prune={sprune})"
        if sweeps is None:
            # the no-solution error was raised (pruning requested): legitimate only if state 0 is worth 0 (or its
            # value is below the numerical tolerance).  Nothing is reported in that case, so nothing else is
            # examined: what the nodes happen to hold when the error is raised is not an output (an implementation
            # may well refuse such a game before it iterates at all).
            v.cls("solver_no_solution")
            if pstar[0] > max(theta * 100, 1e-6):
                v.fail("nosol-but-positive", f"{label} raised no-solution, exact value of state 0 is {pstar[0]}")
            return v
        compare_exact(v, game, facts, phat, pstar, theta, sweeps, label)
        return v
    # StochasticGame.solve(), requested mode + the other mode for the DIFF clause
    prune = case["prune"]
    v.cls("api_solve", "prune" if prune else "no_prune")
    if not facts.stopping:
        v.inconclusive = "solve() route needs a stopping game"
        return v
    if facts.too_slow:
        v.inconclusive = "T>300"
        return v
    a = Solved(facts, prune)
    b = Solved(facts, not prune)
    for x in (a, b):
        lab = f"solve(prune={x.prune})"
        o = x.outcome
        if o.kind == "ok":
            compare_exact(v, game, facts, x.prob, pstar, 1e-6, x.it_reach, lab)
        elif o.kind == "nosol" and x.prune:
            v.cls("no_solution")
            # a positive value within the convergence tolerance may still be held at 0 when the sweeps stop
            if pstar[0] > tol(1e-6, facts.T, 0):
                v.fail("nosol-but-positive", f"{lab} raised no-solution but exact value of state 0 is {pstar[0]}")
        elif o.kind == "budget":
            v.inconclusive = "sweep budget exceeded (reported by C06)"
        elif o.kind == "skipped":
            v.inconclusive = "conditioned game T_c > limit"
        else:
            v.fail("solve-raises", "a well-formed stopping game is not solved: " + o.brief(), sig=f"{o.kind}@{o.where}")
    if a.outcome.kind == "ok" and b.outcome.kind == "ok":
        if a.prob != b.prob:
            diff = [(s, x, y) for s, (x, y) in enumerate(zip(a.prob, b.prob)) if x != y][:3]
            v.fail("prune-changes-probabilities", f"probabilities differ between pruning modes: {diff}")
    else:
        for x, y in ((a, b), (b, a)):
            if x.outcome.kind == "nosol" and y.outcome.kind == "ok" and y.prob[0] != 0:
                v.fail("prune-changes-probabilities", f"pruned solve says no solution, unpruned reports "
                                                      f"p[0]={y.prob[0]!r}")
    if a.outcome.kind == "ok" and b.outcome.kind == "ok" and not v.fails and not v.inconclusive \
            and wants_file_route(dict(game, salt="batch")):
        # the batch driver solves the game in both modes in one call: its two entries must carry the same
        # probabilities as each other and as the two separate solves
        from harness.sut import entry_solved
        r = repo()
        helper = Solved.__new__(Solved)
        helper.facts, helper.iterated_T, helper.iterated_not_stopping = facts, None, False
        v.cls("batch_driver_both_modes")
        try:
            with sweep_budget(r.tad, facts.budget, facts.n, extra_modules=(r.conditionalrewards,),
                              on_reward_phase=helper._reward_phase_budget):
                res = r.conditionalrewards.run_games({"g": copy_game(game)})
        except (BudgetExceeded, SkipSolve):
            return v
        except Exception as e:
            v.fail("batch-driver-raises", f"run_games: {type(e).__name__}: {str(e)[:160]}", sig=type(e).__name__)
            return v
        e1, e2 = res.get("g"), res.get("g_no_prune")
        if entry_solved(e1) and entry_solved(e2):
            if e1["probabilities"] != e2["probabilities"]:
                diff = [(s, x, y) for s, (x, y) in enumerate(zip(e1["probabilities"], e2["probabilities"])) if x != y][:3]
                v.fail("prune-changes-probabilities", f"run_games: entries g and g_no_prune report different "
                                                      f"probabilities: {diff}", sig="batch")
            elif e1["probabilities"] != (a.prob if a.prune else b.prob):
                v.fail("prune-changes-probabilities", f"run_games: entry g reports {e1['probabilities']}, the separate "
                                                      f"solve {(a.prob if a.prune else b.prob)}", sig="batch-vs-solo")
    return v


def check_board(case, v):
    r = repo()
    gms = boards.games_from_board(case["board"])
    game = gms["game_" + case["variant"]]
    n = len(game["players"])
    v.cls("board", "board_game_" + case["variant"], f"board_states<={10 ** len(str(n))}")
    v.key = case
    facts = GameFacts(game)
    pstar = None
    if n <= 40 and exact.n_strategy_pairs(game) <= (4096 if case.get("exact") else 512):
        pstar = exact.reach_values(game)
        v.cls("board_exact")
    else:
        v.cls("large_consistency_only")
    v.nontrivial = classify(v, game, facts if n <= 60 else _Cheap(game), pstar) or True
    theta = 1e-6
    try:
        phat, sweeps = run_solver_api(game, theta)
    except ReachLoopTooLong:
        v.inconclusive = "reachability loop still running after 600000 sweeps"
        return v
    except Exception as e:
        o = classify_exception(e)
        v.fail("solver-raises", o.brief(), sig=f"{type(e).__name__}@{o.where}")
        return v
    if pstar is not None:
        try:
            compare_exact(v, game, facts, phat, pstar, theta, sweeps, "board Solver")
        except OracleError as e:
            # e.g. a break probability of 5e-324: 1 - p is 1.0 in floating point, the rows of the written game sum
            # to more than 1 as rationals and the exact solver's linear systems can be singular
            v.inconclusive = f"oracle: {e}"
        return v
    finals = set(game["final_states"])
    back = exact.backward_reachable(game)
    res = bellman_reach(game, phat)
    worst = max(abs(a - b) for a, b in zip(res, phat))
    if worst > theta + SLACK:
        v.fail("residual-above-threshold", f"board: |B p - p| = {worst:.3g} > theta")
    # independent iteration from below; only usable as a reference if it really converged (change per
    # sweep <= 1e-13 before the cap) - on slowly mixing boards it does not, and then it proves nothing
    L, k = jacobi_reach(game, eps=1e-13, vmax_sweeps=20000)
    converged = k < 20000
    if not converged:
        v.cls("independent_iteration_not_converged")
    kstep, _ = jacobi_reach(game, sweeps=max(0, min(sweeps, 20000) - 2))
    for s in range(n):
        if s in finals:
            if phat[s] != 1:
                v.fail("final-not-1", f"board: final state {s} reports {phat[s]!r}")
        elif s not in back:
            if phat[s] != 0:
                v.fail("unreaching-not-0", f"board: state {s} reports {phat[s]!r} without a path to a final state")
        elif converged and phat[s] > L[s] + 1e-6:
            v.fail("exceeds-true-value", f"board: state {s} reports {phat[s]!r} > independent iteration {L[s]!r}",
                   sig="board")
        elif phat[s] < kstep[s] - SLACK:
            v.fail("below-k-step-value", f"board: state {s} reports {phat[s]!r} below the {sweeps}-step value "
                                         f"{kstep[s]!r}")
    return v


class _Cheap:
    """GameFacts stand-in for large games: structure only."""

    def __init__(self, game):
        self.game = game
        self.has_cycle = True
        self.stopping = None

    @property
    def back(self):
        return exact.backward_reachable(self.game)


def check_case(case):
    v = Verdict()
    if case["kind"] == "board":
        return check_board(case, v)
    if case["kind"] == "medium":
        return check_medium(case, v)
    if case["kind"] == "final_dead":
        return check_final_dead(case, v)
    if case["kind"] == "siblings":
        v.cls("siblings_" + case["how"])
        for g in (case["first"], case["second"]):
            for sub in (dict(kind="solve", game=g, prune=case["prune"]), dict(kind="solver", game=g, theta=1e-6)):
                w = check_small(sub, Verdict())
                v.fails.extend(w.fails)
                v.nontrivial = v.nontrivial or w.nontrivial
                if w.inconclusive:
                    v.inconclusive = w.inconclusive
        return v
    return check_small(case, v)
