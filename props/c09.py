"""C09 - malformed games are rejected with ValueError, never solved (fault enumeration).

For every generated well-formed base game, EVERY single-rule fault the harness
knows is applied at EVERY position of that game (enumerated, not sampled); each
faulty description must make solve() raise ValueError in both pruning modes, and
the batch runner must record a message for it while still solving its neighbours.
"""
import copy

from hypothesis import strategies as st

from harness import codec, games
from harness.budget import BudgetExceeded, sweep_budget
from harness.games import P1, P2, PR
from harness.load import repo
from harness.runner import Phase, Verdict

ID = "C09"
LEVEL = "fault_enumeration"
TECHNIQUE = ("per generated base game (Hypothesis), exhaustive enumeration of single-rule faults at every position; stacked "
             "faults and coverage-guided fuzzing (atheris/libFuzzer) against an independent statement of the rules; "
             "invariant oracle: ValueError and no result, batch runner records a message")
LEVEL_TEXT = ("Fault enumeration: for each generated well-formed base game (2-7 states, any owners/topology), all eleven "
              "documented well-formedness rules are broken one at a time at every state, transition and tuple slot, with "
              "boundary values (index n, -1, -n, n+k; -1e-9, -inf; '', None ...), about 100-400 faulty descriptions per base "
              "game; each is pushed through solve() in both pruning modes and through run_games next to solvable games "
              "(before / between / after). The per-base-game fault list is complete for the listed fault kinds; the base "
              "games are sampled.")
LEVEL_NOTE = ("Trusted: the fault enumerator in props/c09.py (each fault is applied to a deep copy; the unmodified base game "
              "is first confirmed to be accepted). bool is deliberately not used as a 'non-integer' / 'non-numeric' value "
              "(True is an int in Python and the statement does not claim otherwise).")
RULE = ("case = base game; evaluations = faulty descriptions derived from it (rule x position x value). Non-trivial = the "
        "fault is not at state 0 / the first transition / the first final, or uses a boundary value (n, -1, -1e-9). "
        "Distinct = different (base game, rule, position, value).")
ASSUMPTIONS = ["faults are single-rule: exactly one rule is broken per faulty description",
               "top-level fields that are not lists at all (None instead of a list) are outside the documented rules"]

GOOD_A = dict(rewards=[0, 2, 0, 0], players=[P1, PR, PR, PR],
              transition_list=[[("a", 1), ("b", 3)], [(0.5, 2), (0.5, 3)], [(1, 2)], [(1, 3)]], final_states=[2])
GOOD_B = dict(rewards=[1, 0, 0], players=[P2, PR, PR],
              transition_list=[[("x", 1), ("y", 1)], [(1, 1)], [(1, 2)]], final_states=[1])


def faults(game):
    """Yield (rule, position descriptor, value repr, nontrivial, faulty_game)."""
    n = len(game["players"])

    def fresh():
        return copy.deepcopy(game)
    # R1 lengths
    for field in ("rewards", "transition_list", "players"):
        for i in range(n):
            g = fresh()
            del g[field][i]
            yield "R1-length", f"{field} drop {i}", "", i > 0, g
        for i in range(n + 1):
            g = fresh()
            filler = {"rewards": 0, "players": PR, "transition_list": [(1, 0)]}[field]
            g[field].insert(i, filler)
            yield "R1-length", f"{field} insert {i}", "", i > 0, g
    # R2 negative reward
    for s in range(n):
        # ... from the smallest to the largest there is: a subnormal, an integer no double can hold
        for val in (-1, -1e-9, float("-inf"), -0.5, -5e-324, -10 ** 25, -2 ** 1024, -10 ** 400, -1e308):
            g = fresh()
            g["rewards"][s] = val
            yield "R2-negative-reward", f"state {s}", repr(val), s > 0 or val == -1e-9, g
    # R3 unknown player
    for s in range(n):
        for val in ("Player 3", "player 1", "", None, 1, "Probabilistic "):
            g = fresh()
            g["players"][s] = val
            yield "R3-unknown-player", f"state {s}", repr(val), s > 0, g
    # R4 final index out of range, at each position of the final list and next to valid entries
    nf = len(game["final_states"])
    for val in (n, -1, n + 3, -n, -n - 1):
        for pos in range(nf + 1):
            g = fresh()
            g["final_states"].insert(pos, val)
            yield "R4-final-out-of-range", f"final insert {pos}", repr(val), pos > 0 or val in (n, -1), g
        for pos in range(nf):
            g = fresh()
            g["final_states"][pos] = val
            yield "R4-final-out-of-range", f"final replace {pos}", repr(val), pos > 0 or val in (n, -1), g
    # R11 no final state
    g = fresh()
    g["final_states"] = []
    yield "R11-no-final", "final list", "[]", True, g
    # per transition faults
    for s in range(n):
        lst = game["transition_list"][s]
        is_prob = game["players"][s] == PR
        for k in range(len(lst)):
            nt = s > 0 or k > 0
            for val in (n, -1, n + 7, -n):
                g = fresh()
                g["transition_list"][s][k] = (lst[k][0], val)
                yield "R5-successor-out-of-range", f"state {s} transition {k}", repr(val), nt or val in (n, -1), g
            for val in (1.0, "1", None, float(lst[k][1]), [lst[k][1]]):
                g = fresh()
                g["transition_list"][s][k] = (lst[k][0], val)
                yield "R10-non-integer-successor", f"state {s} transition {k}", repr(val), nt, g
            # R7 shape of the entry
            for name, val in (("entry-as-list", [lst[k][0], lst[k][1]]), ("1-tuple", (lst[k][0],)),
                              ("3-tuple", (lst[k][0], lst[k][1], lst[k][1])), ("scalar-entry", lst[k][1]),
                              ("empty-tuple", ()), ("None-entry", None)):
                g = fresh()
                g["transition_list"][s][k] = val
                yield "R7-not-list-of-2-tuples", f"state {s} transition {k} {name}", repr(val), nt, g
            if is_prob:
                for val in ("0.5", None, 0.5j, [0.5], b"1"):
                    g = fresh()
                    g["transition_list"][s][k] = (val, lst[k][1])
                    yield "R9-non-numeric-probability", f"state {s} transition {k}", repr(val), nt, g
            else:
                for val in (7, 0.5, None, b"a", ("a",)):
                    g = fresh()
                    g["transition_list"][s][k] = (val, lst[k][1])
                    yield "R8-non-string-action", f"state {s} transition {k}", repr(val), nt, g
        # R6 state without transitions
        for val in ([], None):
            g = fresh()
            g["transition_list"][s] = val
            yield "R6-no-transitions", f"state {s}", repr(val), s > 0, g
        # R7 shape of the state's list
        for name, val in (("list-as-tuple", tuple(lst)), ("scalar-state-entry", 5), ("dict", {0: 1}),
                          ("string", "ab"), ("zero", 0)):
            g = fresh()
            g["transition_list"][s] = val
            yield "R7-not-list-of-2-tuples", f"state {s} {name}", repr(val)[:40], s > 0, g


def alias_faults(game):
    """Faults that only exist through object identity: state j's transition list IS state i's list object,
    where i is a player state and j a probabilistic one or the other way round (so j's entries have the wrong
    kind of first slot: rule R8 / R9), in both index orders."""
    n = len(game["players"])
    for i in range(n):
        for j in range(n):
            if i == j or (game["players"][i] == PR) == (game["players"][j] == PR):
                continue
            g = copy.deepcopy(game)
            g["transition_list"][j] = g["transition_list"][i]
            rule = "R9-non-numeric-probability" if game["players"][j] == PR else "R8-non-string-action"
            yield rule, f"state {j} shares the list object of state {i}", "alias", True, g


@st.composite
def bases(draw):
    return dict(game=draw(games.any_games(min_states=2, max_states=7, max_actions=3)))


from harness.refvalid import reference_valid  # noqa: E402


@st.composite
def multi_fault(draw):
    """A base game with 0-4 faults applied one after the other (each drawn from the enumerator's
    list for the CURRENT description when it still has the shape the enumerator needs)."""
    g = draw(games.any_games(min_states=2, max_states=6, max_actions=3))
    k = draw(st.integers(0, 4))
    applied = []
    for _ in range(k):
        try:
            fl = list(faults(g))
        except Exception:
            break                      # the description no longer has the shape the enumerator walks
        if not fl:
            break
        rules = sorted({f[0] for f in fl})
        rule = draw(st.sampled_from(rules))
        idxs = [j for j, f in enumerate(fl) if f[0] == rule]
        i = idxs[draw(st.integers(0, len(idxs) - 1))]
        applied.append([fl[i][0], fl[i][1], fl[i][2]])
        g = fl[i][4]
    return dict(multi=g, applied=applied)


def phases(tier):
    return [Phase("fault-enumeration-per-base-game", strategy=bases, examples=(120, 4000),
                  note="every known single-rule fault at every position of each base game"),
            Phase("multi-fault-differential-validation", strategy=multi_fault, examples=(1500, 60000),
                  note="0-4 stacked faults; acceptance compared with an independent statement of the rules")]


def check_multi(case):
    """DIFF against the reference validator, both directions: a description the rules accept must be
    accepted by validation (check_game + init_states), one they reject must make solve() raise ValueError."""
    v = Verdict()
    r = repo()
    g = case["multi"]
    try:
        verdict = reference_valid(g)
    except Exception:
        v.inconclusive = "stacked faults left the documented rule space (reference validator not applicable)"
        return v
    v.cls("stacked_faults=%d" % len(case["applied"]), "reference_" + ("accepts" if verdict is None else "rejects"))
    v.nontrivial = len(case["applied"]) >= 2 or verdict is None
    if verdict is not None:
        v.cls("first_broken_" + verdict)
    with sweep_budget(r.tad, 3000, max(4, len(g["players"])), extra_modules=(r.conditionalrewards,)):
        if verdict is None:
            try:
                sg = r.tad.StochasticGame(**copy.deepcopy(g))
                sg.check_game()
                sg.init_states()
            except Exception as e:
                v.fail("well-formed-game-rejected", f"the documented rules accept {g} (faults applied: "
                                                    f"{case['applied']}) but validation raised {type(e).__name__}: {e}",
                       sig=type(e).__name__)
            return v
        for prune in (True, False):
            kind, x = run_solve(r.tad, g, prune)
            if kind == "returned":
                v.fail("malformed-game-solved", f"rule {verdict} is broken in {g} (faults applied: {case['applied']}) "
                                                f"but solve(prune={prune}) returned", sig=verdict)
            elif kind == "other":
                v.fail("wrong-exception-type", f"rule {verdict} is broken in {g} (faults applied: {case['applied']}): "
                                               f"solve(prune={prune}) raised {type(x).__name__}: {str(x)[:100]}",
                       sig=f"{verdict}:{type(x).__name__}")
    return v


def sample_view(case):
    if "multi" in case:
        return case
    g = case["game"]
    fl = list(faults(g))
    return dict(base_game=g, n_faults=len(fl), example_faults=[dict(rule=r, at=p, value=val) for r, p, val, _, _ in fl[::max(1, len(fl) // 6)]][:6]) \
        if "fault" not in case else case


def run_solve(tad, g, prune):
    try:
        res = tad.StochasticGame(prune_states=prune, **copy.deepcopy(g)).solve()
        return "returned", res
    except BudgetExceeded:
        return "returned", "(validation passed; value iteration was still running when the sweep budget ended)"
    except ValueError as e:
        return "valueerror", e
    except Exception as e:
        return "other", e


def judge_fault(v, r, rule, pos, val, g, idx, base):
    tad = r.tad
    label = f"{rule} at {pos} value {val}"
    narrowed = dict(game=base, fault=idx)
    for prune in (True, False):
        kind, x = run_solve(tad, g, prune)
        if kind == "returned":
            v.fail("malformed-game-solved", f"{label}: solve(prune={prune}) returned a result for {g}", sig=rule,
                   case=narrowed)
        elif kind == "other":
            v.fail("wrong-exception-type", f"{label}: solve(prune={prune}) raised {type(x).__name__}: {str(x)[:100]} "
                                           f"for {g}", sig=f"{rule}:{type(x).__name__}", case=narrowed)
    # batch runner: bad game before / between / after good ones
    where = idx % 3
    names = [("good_a", GOOD_A), ("good_b", GOOD_B)]
    names.insert(where, ("bad", g))
    batch = {k: copy.deepcopy(x) for k, x in names}
    try:
        res = r.conditionalrewards.run_games(batch)
    except BudgetExceeded:
        v.fail("malformed-game-solved", f"{label}: run_games was still iterating on {g} when the sweep budget ended",
               sig=rule, case=narrowed)
        return
    except Exception as e:
        v.fail("batch-runner-crashes", f"{label}: run_games raised {type(e).__name__}: {str(e)[:100]} for bad game {g} "
                                       f"in position {where}", sig=f"{rule}:{type(e).__name__}", case=narrowed)
        return
    from harness.sut import entry_failed_with, entry_not_solved, entry_solved
    e = res.get("bad")
    solo_text = None
    try:
        r.tad.StochasticGame(prune_states=True, **copy.deepcopy(g)).solve()
    except ValueError as err:
        solo_text = str(err)
    except BaseException:
        pass
    if not (isinstance(e, dict) and isinstance(e.get("msg"), str) and e["msg"].strip() and e["msg"] != "Game solved"
            and (solo_text is None or solo_text.lower() in e["msg"].lower())):
        v.fail("batch-message-missing", f"{label}: run_games entry for the bad game is {e!r}"[:400], sig=rule,
               case=narrowed)
    else:
        leaked = [k for k in ("reachability_strategies", "final_strategies", "rewards", "probabilities") if e.get(k) is not None]
        if leaked:
            v.fail("batch-entry-has-results", f"{label}: failed entry carries {leaked}", sig=rule, case=narrowed)
        e2 = res.get("bad_no_prune")
        if not entry_not_solved(e2):
            v.fail("batch-unpruned-entry", f"{label}: unpruned entry of the bad game is {e2!r}"[:300], sig=rule,
                   case=narrowed)
    for k in ("good_a", "good_a_no_prune", "good_b", "good_b_no_prune"):
        if not entry_solved(res.get(k)):
            v.fail("batch-neighbour-not-solved", f"{label}: {k} is {str(res.get(k))[:200]} with the bad game in "
                                                 f"position {where}", sig=rule, case=narrowed)
            break


def check_case(case):
    if "multi" in case:
        return check_multi(case)
    v = Verdict()
    r = repo()
    base = case["game"]
    n = len(base["players"])
    if True:
        # the unmodified base game must be ACCEPTED by validation (else the enumeration means nothing)
        try:
            sg = r.tad.StochasticGame(**copy.deepcopy(base))
            sg.check_game()
            sg.init_states()
        except Exception as e:
            v.fail("base-game-rejected", f"well-formed base game rejected: {type(e).__name__}: {e}: {base}")
            return v
        allf = list(faults(base)) + list(alias_faults(base))
        only = case.get("fault")
        evals = 0
        keys = []
        rules = set()
        for idx, (rule, pos, val, nt, g) in enumerate(allf):
            if only is not None and idx != only:
                continue
            evals += 1
            rules.add(rule)
            if nt:
                keys.append([codec.digest(base), rule, pos, val])
            with sweep_budget(r.tad, 3000, max(n, 4), extra_modules=(r.conditionalrewards,)):
                judge_fault(v, r, rule, pos, val, g, idx, base)
    v.evals = evals
    v.nt_keys = keys
    v.nontrivial = bool(keys)
    v.cls(*sorted(rules))
    v.cls(f"base_states={n}")
    return v


def fuzz_stage(tier, seed):
    """Coverage-guided stage: atheris target fuzz/fuzz_validate.py (oracle = harness/refvalid.py, both
    directions).  Two campaigns: empty corpus, and a corpus seeded with two small valid inputs."""
    from harness import fuzzstage
    runs = 40000 if tier == "quick" else 1500000
    info = dict(engine="atheris (libFuzzer), target fuzz/fuzz_validate.py", campaigns=[])
    cases = []
    for name, seeds in (("empty-corpus", ()), ("seeded-corpus", (bytes([3, 50, 50, 9, 50, 1, 50, 2, 50, 50]) * 6,
                                                                  bytes(range(40, 120))))):
        c = fuzzstage.campaign("fuzz_validate.py", runs, seed, seeds=seeds)
        info["campaigns"].append(dict(corpus=name, executions=c["executions"], outcome_classes=c["stats"],
                                      crashes=len(c["crashes"]), skipped=c.get("skipped"), note=c.get("note"),
                                      final_corpus_size=c.get("corpus_size")))
        for g in c["crashes"]:
            cases.append(dict(multi=g, applied=[["fuzz", "atheris " + name, ""]]))
    return info, cases
