"""C06 - every well-formed stopping game is solved or declared unsolvable.

Termination is turned into a safety property by a DERIVED sweep bound: the
reach loop gets the bound for the exact maximal expected absorption time T of the
input game, the reward loop the bound for the exact T of the game it actually
iterates (computed when the loop is entered, from the solver's own
post-conditioning lists).  Outcome classification is decided by the exact oracle:
pruning on and value(0) == 0 => the 'no solution' ValueError; otherwise a
complete, well-shaped result.  Anything else is a violation.
"""
import math

from hypothesis import strategies as st

from harness import exact, games
from harness.analysis import GameFacts, Solved, T_MAX, sweep_bound
from harness.budget import BudgetExceeded, sweep_budget
from harness.exact import OracleError
from harness.games import P1, P2, PR, copy_game
from harness.load import repo
from harness.runner import Phase, Verdict
from harness.sut import NO_SOLUTION

ID = "C06"
LEVEL = "exploration"
TECHNIQUE = ("property-based testing (Hypothesis) with an exact-oracle outcome classification and a derived "
             "(not wall-clock) sweep bound for termination")
LEVEL_TEXT = ("Generated-input search over constructed stopping games rich in zero-value shapes (unreachable finals, "
              "Player 2 escapes, dead chains, probabilistic states with 2-4 dead successors in all positions, rewarded "
              "self-loops, 0-3 sinks), both pruning modes, through solve() and through the batch runner. Termination "
              "is checked against a sweep bound derived from exact expected absorption times, so 'iterates forever' "
              "becomes a finite, deterministic observation. Exploration: liveness cannot be established by testing; "
              "what is claimed is that no explored stopping game exceeded its derived bound or failed otherwise."
              ' Added while validating sensitivity: medium-size games (20-300 states) with float-derived bounds, slowly escaping rewarded loops needing up to 1.9x10^5 sweeps (quick) / 4x10^5 (thorough), zero-probability transitions; slow games are explored up to T = 80000 / n.'
              ' Later rounds: two solves (and two driver runs) through the very same dictionary, initial states that are final states, direct wins of 3e-7 ... 5e-324 from the initial state, repeated entries and duplicated self-loops next to dead successors, cut corridors of 2500 states.')
LEVEL_NOTE = ("Trusted: harness/exact.py (T, values), the sweep bound of DESIGN 2.5, the run-time wrappers in "
              f"harness/budget.py. Only games with T <= {T_MAX} (input) and T_c <= 600 (conditioned) are explored; "
              "'no solution' is decided only when value(0) is 0 or above the numerical tolerance.")
RULE = ("case = (stopping game, route) with route in {solve(prune), solve(no prune), run_games, two solves of the same description}. Non-trivial = the game "
        "has a Player 1 / probabilistic list with >= 2 zero-value successors, or is a no-solution game, or needed "
        "> 50 sweeps. Distinct = different (game, route).")
ASSUMPTIONS = [f"explores stopping games with exact T <= {T_MAX} and conditioned T_c <= 600; slower games are counted "
               "inconclusive", "value(0) strictly between 0 and threshold x (T+1) is counted undecided for the "
               "no-solution clause, unless state 0 itself moves into a final state with positive probability (then any "
               "iteration from below reports a positive figure after its first sweep)"]
CLASS_FLOORS = {"no_solution_game": 0.1, "dead>=2": 0.1}


@st.composite
def cases(draw, max_inner=10):
    g = draw(games.stopping_games(min_inner=1, max_inner=max_inner, max_sinks=3, zero_edges=True))
    route = draw(st.sampled_from(("prune", "prune", "no_prune", "batch", "batch_twice", "again_pp", "again_pn", "again_np",
                                   "sib_prune", "sib_no_prune")))
    return dict(game=g, route=route)


def planted():
    """Shapes the property text singles out, as plain enumerated cases."""
    def sink_game(owner0, tl0, extra_players=(), extra_tl=(), rew0=1):
        # states: 0 initial, 1 final, 2 sink, 3.. extras
        players = [owner0, PR, PR] + list(extra_players)
        tl = [tl0, [(1, 1)], [(1, 2)]] + list(extra_tl)
        rew = [rew0, 0, 0] + [0 if all(t == 3 + i for _, t in lst) else 2 for i, lst in enumerate(extra_tl)]
        return dict(rewards=rew, players=players, transition_list=tl, final_states=[1])
    gs = [
        sink_game(PR, [(1, 2)]),                                             # initial state cannot reach the final
        sink_game(P2, [("a", 1), ("b", 2)]),                                # Player 2 forces away
        sink_game(P1, [("a", 2), ("b", 2)]),                                # all Player 1 actions dead
        sink_game(PR, [(0.25, 0), (0.25, 2), (0.25, 3), (0.25, 1)], [PR], [[(0.5, 3), (0.5, 2)]]),  # rewarded self-loop, 2 dead
        sink_game(PR, [(0.25, 2), (0.25, 1), (0.25, 3), (0.25, 0)], [PR], [[(0.5, 3), (0.5, 2)]]),  # separated dead successors
        sink_game(PR, [(0.5, 3), (0.5, 1)], [PR, PR, PR],
                  [[(0.25, 3), (0.25, 4), (0.25, 5), (0.25, 2)], [(1, 4)], [(0.5, 5), (0.5, 2)]]),  # dead state, rewarded loop
        sink_game(P2, [("a", 3), ("b", 4)], [PR, PR], [[(0.5, 1), (0.5, 2)], [(0.5, 1), (0.5, 0)]]),
        # the initial state is itself a final state (value 1 by definition): alone, next to another final state,
        # owned by a player, listed last or twice
        dict(rewards=[0, 0], players=[PR, PR], transition_list=[[(1, 0)], [(1, 1)]], final_states=[0]),
        dict(rewards=[0, 0, 0, 2], players=[P1, PR, PR, PR],
             transition_list=[[("stay", 0)], [(1, 1)], [(1, 2)], [(0.5, 1), (0.5, 2)]], final_states=[1, 0]),
        dict(rewards=[0, 0, 0], players=[P2, PR, PR], transition_list=[[("stay", 0)], [(1, 1)], [(0.5, 1), (0.5, 0)]],
             final_states=[0, 0]),
    ]
    for g in gs:
        for route in ("prune", "no_prune", "batch", "batch_twice", "again_pn", "again_pp", "sib_prune", "sib_no_prune"):
            yield dict(game=g, route=route)


def medium_phase(tier):
    from harness import medium
    def gen():
        for c in medium.medium_cases(18 if tier == "quick" else 300, base_seed=6):
            for route in ("prune", "no_prune"):
                yield dict(medium=True, seed=c["seed"], n_inner=c["n_inner"], route=route)
    return gen


def cut_corridor_phase(tier):
    def gen():
        for d, asc in ((1100, True),) if tier == "quick" else ((1100, True), (1100, False), (2500, True)):
            yield dict(medium=True, planted="cut_corridor", d=d, ascending=asc, route="prune")
        yield dict(medium=True, planted="cut_corridor", d=300, ascending=True, route="no_prune")
    return gen


def check_medium(case):
    """Games of 20-300 states: outcome classified by the exact graph attractor (value(0) > 0 or not),
    termination against the bound derived from the float estimate T^ of the game iterated."""
    from harness import medium
    v = Verdict()
    if case.get("planted") == "cut_corridor":
        game = games.cut_corridor_game(case["d"], ascending=case["ascending"])
        v.cls("cut_corridor")
    else:
        game = medium.medium_game(case["seed"], case["n_inner"], dead_frac=0.3)
    prune = case["route"] == "prune"
    n = len(game["players"])
    v.key = case
    v.cls("medium", "route_" + case["route"])
    pos = medium.positive_set(game)
    o, info = medium.solve_medium(game, prune)
    if o is None:
        v.inconclusive = info
        return v
    lab = f"medium game (seed={case.get('seed')}, planted={case.get('planted')}, {n} states) solve(prune={prune})"
    v.nontrivial = True
    if 0 not in pos:
        v.cls("no_solution_game")
    if o.kind == "budget":
        v.fail("did-not-terminate-within-derived-bound", f"{lab}: exceeded the sweep bound derived from T^={info['T']:.3g} "
                                                         f"/ T^_c={info['Tc']}: {o.exc}", sig="budget")
    elif o.kind == "skipped":
        v.inconclusive = "conditioned game T^_c > limit"
    elif o.kind == "nosol":
        if not prune or 0 in pos:
            L, U, _ = medium.bracket_reach(game)
            if not prune or U[0] > 1e-5:
                v.fail("no-solution-but-value-positive", f"{lab}: raised no-solution, value of state 0 is about {U[0]!r}")
    elif o.kind == "ok":
        if prune and 0 not in pos:
            v.fail("solved-a-no-solution-game", f"{lab}: returned a result although state 0 is worth 0")
        well_shaped(v, game, o.result, lab)
    else:
        v.fail("unexpected-error", f"{lab}: {o.brief()}", sig=type(o.exc).__name__)
    return v


def positive_after_one_sweep(game):
    """State 0 is certain to carry a positive reachability figure after the first sweep of any value iteration
    from below: it is probabilistic and one of its positive-probability moves enters a final state (which
    carries 1 from the start)."""
    finals = set(game["final_states"])
    if 0 in finals:
        return True
    moves = game["transition_list"][0]
    if game["players"][0] == PR:
        return any(p > 0 and t in finals for p, t in moves)
    if game["players"][0] == P1:
        return any(t in finals for _, t in moves)
    return all(t in finals for _, t in moves)


def tiny_direct_games():
    """State 0 wins directly with a tiny probability (3e-7 ... 5e-324) and loses otherwise, or first passes a
    fair coin: the value is positive, so the game has a solution in both modes."""
    for e in (3e-7, 1e-6, 9.9e-7, 1e-7, 1e-9, 1e-12, 1e-30, 1e-300, 5e-324):
        for rew in ((1, 0, 0), (4.5, 0, 0)):
            yield dict(rewards=list(rew), players=[PR, PR, PR],
                       transition_list=[[(e, 1), (1 - e, 2)], [(1, 1)], [(1, 2)]], final_states=[1])
            yield dict(rewards=list(rew) + [3], players=[PR, PR, PR, P2],
                       transition_list=[[(0.5, 3), (e, 1), (0.5 - e, 2)], [(1, 1)], [(1, 2)], [("a", 2), ("b", 2)]],
                       final_states=[1])


def tiny_cases():
    for g in list(games.tiny_reach_games()) + list(games.dup_edge_games()):
        for route in ("prune", "batch"):
            yield dict(game=g, route=route)
    for g in tiny_direct_games():
        for route in ("prune", "no_prune", "batch"):
            yield dict(game=g, route=route)


def slow_cases():
    for g in games.slow_choice_games():
        for route in ("prune", "no_prune", "batch"):
            yield dict(game=g, route=route, allow_slow=True)


def phases(tier):
    return [Phase("planted-zero-value-shapes", enum=planted),
            Phase("slow-rewarded-loops", enum=slow_cases, note="solves that need 10^3..10^5 sweeps"),
            Phase("tiny-positive-values", enum=tiny_cases,
                  note="values and live probability masses from 1e-6 down to subnormal floats"),
            Phase("medium-size-games", enum=medium_phase(tier), note="stopping games of 20-300 states"),
            Phase("cut-corridors", enum=cut_corridor_phase(tier),
                  note="a corridor of 1100+ non-Player-1 states that conditioning makes unreachable (removal cascade)"),
            Phase("stopping-games", strategy=lambda: cases(10 if tier == "quick" else 13), examples=(2400, 100000))]


def well_shaped(v, game, res, label):
    n = len(game["players"])
    if not isinstance(res, tuple) or len(res) != 8:
        v.fail("result-shape", f"{label}: result is {type(res).__name__} of length "
                               f"{len(res) if hasattr(res, '__len__') else '?'}")
        return
    final, reach, rew, prob, it1, it2, pmr, rmr = res
    for name, vec in (("final strategies", final), ("reachability strategies", reach), ("rewards", rew),
                      ("probabilities", prob), ("probabilities min rew", pmr), ("rewards min reach", rmr)):
        if not isinstance(vec, list) or len(vec) != n:
            v.fail("result-shape", f"{label}: {name} has length {len(vec) if hasattr(vec, '__len__') else '?'} "
                                   f"for {n} states", sig=name)
            return
    for s, pl in enumerate(game["players"]):
        for name, vec in (("final", final), ("reach", reach)):
            if pl == PR:
                if vec[s] is not None:
                    v.fail("result-shape", f"{label}: probabilistic state {s} has a {name} strategy", sig="prob-strategy")
            elif not isinstance(vec[s], list) or not all(isinstance(a, str) for a in vec[s]):
                v.fail("result-shape", f"{label}: player state {s} {name} strategy is {vec[s]!r}", sig="player-strategy")
        for name, vec in (("reward", rew), ("probability", prob), ("prob min rew", pmr), ("rew min reach", rmr)):
            x = vec[s]
            if isinstance(x, bool) or not isinstance(x, (int, float)) or not math.isfinite(x):
                v.fail("result-not-finite", f"{label}: state {s} {name} is {x!r}", sig=name)


def dead_lists(game, pstar):
    worst = 0
    for pl, lst in zip(game["players"], game["transition_list"]):
        if pl != P2:
            worst = max(worst, sum(1 for _, t in lst if pstar[t] == 0))
    return worst


def check_case(case):
    if case.get("medium"):
        return check_medium(case)
    v = Verdict()
    game = case["game"]
    route = case["route"]
    v.cls("route_" + route)
    facts = GameFacts(game, allow_slow=bool(case.get("allow_slow")))
    try:
        if not facts.stopping:
            from harness.load import HarnessError
            raise HarnessError(f"C06 generator produced a game that is not stopping: {game}")
        T = facts.T
        pstar = facts.pstar
    except OracleError as e:
        v.inconclusive = f"oracle: {e}"
        return v
    if facts.too_slow:
        v.inconclusive = "T>300"
        return v
    p0 = pstar[0]
    # A positive value within the convergence tolerance may still be reported as 0 by an iteration from below
    # (it has not travelled back to state 0 when the sweeps stop), and 'no solution' then follows from the
    # solver's own figure: undecided.  Not so when state 0 itself moves to a final state with positive
    # probability: every iteration from below, in any sweep order, gives it a positive figure in its first
    # sweep, however small - 'no solution' is then wrong.
    undecided0 = 0 < p0 <= 1e-6 * (float(T) + 1) + 1e-9 and not positive_after_one_sweep(game)
    if 0 < p0 <= 1e-6 * (float(T) + 1) + 1e-9:
        v.cls("initial_value_within_tolerance_of_0" + ("" if undecided0 else "_but_decided_by_a_direct_move"))
    nt = False
    if p0 == 0:
        v.cls("no_solution_game")
        nt = True
    k = dead_lists(game, pstar)
    if k >= 2:
        v.cls("dead>=2")
        nt = True
    v.cls(f"max_dead_in_list={min(k, 4)}")

    def judge(outcome_kind, exc, res, prune, label, sweeps):
        nonlocal nt
        if sweeps and sweeps > 50:
            v.cls("sweeps>50")
            nt = True
        if outcome_kind == "budget":
            v.fail("did-not-terminate-within-derived-bound",
                   f"{label}: exceeded the sweep bound derived from the exact expected absorption time "
                   f"(T={float(T):.3g}): {exc}", sig="budget")
        elif outcome_kind == "skipped":
            v.inconclusive = "conditioned game T_c > limit"
        elif outcome_kind == "nosol":
            if not prune:
                v.fail("no-solution-without-pruning", f"{label}: raised {exc!r} with pruning off")
            elif p0 != 0 and not undecided0:
                v.fail("no-solution-but-value-positive", f"{label}: raised no-solution, exact value of state 0 is "
                                                         f"{p0} = {float(p0):.6g}")
        elif outcome_kind == "ok":
            if prune and p0 == 0:
                v.fail("solved-a-no-solution-game", f"{label}: returned a result although the exact value of the "
                                                    f"initial state is 0 (reported p[0]={res[3][0]!r})")
            well_shaped(v, game, res, label)
        else:
            v.fail("unexpected-error", f"{label}: {type(exc).__name__}: {str(exc)[:160]}",
                   sig=f"{type(exc).__name__}")

    if route.startswith("sib_"):
        # a sweep over probabilities on one graph: two siblings of the game (same owners, successors and final states,
        # every chance state's mass on its first / on its last entry, the other entries listed with probability 0) are
        # solved in this process first; whatever they do is not examined.  Then the game itself is solved and judged.
        from harness.sut import solve as sut_solve
        v.cls("after_zeroed_siblings")
        for pick, sib_prune in ((0, True), (-1, False)):
            sib = copy_game(game)
            for s_, lst in enumerate(sib["transition_list"]):
                if sib["players"][s_] == PR and len(lst) >= 2:
                    k = pick % len(lst)
                    sib["transition_list"][s_] = [(1.0 if i == k else 0.0, t) for i, (_, t) in enumerate(lst)]
            sut_solve(sib, sib_prune, sweeps=3000, via_file=False)
        route = route[len("sib_"):]
    if route.startswith("again_"):
        # the same description (the very same dict and lists) is solved twice; each solve must end properly
        from harness.sut import solve as sut_solve
        helper = Solved.__new__(Solved)
        helper.facts, helper.iterated_T, helper.iterated_not_stopping = facts, None, False
        g = copy_game(game)
        modes = [c == "p" for c in route[len("again_"):]]
        for i, prune in enumerate(modes):
            o = sut_solve(g, prune, sweeps=facts.budget, copy=False, on_reward_phase=helper._reward_phase_budget)
            judge(o.kind, o.exc, o.result, prune,
                  f"solve(prune={prune})" + (f" as solve no. {i + 1} of the same description (after prune={modes[0]})"
                                             if i else ""), o.sweeps)
            if v.inconclusive or o.kind in ("budget", "skipped"):
                break
    elif route in ("prune", "no_prune"):
        prune = route == "prune"
        a = Solved(facts, prune)
        o = a.outcome
        judge(o.kind, o.exc, o.result, prune, f"solve(prune={prune})", o.sweeps)
        if a.iterated_not_stopping:
            v.cls("iterated_game_not_stopping")
    else:
        r = repo()
        helper = Solved.__new__(Solved)
        helper.facts, helper.iterated_T, helper.iterated_not_stopping = facts, None, False
        from harness.sut import SkipSolve
        gd = {"g": copy_game(game)}
        try:
            with sweep_budget(r.tad, facts.budget, facts.n, extra_modules=(r.conditionalrewards,),
                              on_reward_phase=helper._reward_phase_budget) as shim:
                res = r.conditionalrewards.run_games(gd)
                if route == "batch_twice":
                    # the caller hands the very same dictionary to the driver again
                    res = r.conditionalrewards.run_games(gd)
        except BudgetExceeded as e:
            judge("budget", e, None, True, "run_games", None)
            v.nontrivial = nt
            return v
        except SkipSolve:
            v.inconclusive = "conditioned game T_c > limit"
            return v
        except Exception as e:
            v.fail("batch-runner-raises", f"run_games: {type(e).__name__}: {str(e)[:160]}", sig=type(e).__name__)
            v.nontrivial = nt
            return v
        if shim.sweeps > 100:
            v.cls("sweeps>50")
            nt = True
        want_keys = ["g", "g_no_prune"]
        if list(res.keys()) != want_keys:
            v.fail("batch-keys", f"run_games returned keys {list(res.keys())}")
        else:
            from harness.sut import entry_failed_with, entry_not_solved, entry_solved
            m1, m2 = res["g"]["msg"], res["g_no_prune"]["msg"]
            if p0 == 0:
                if not entry_failed_with(res["g"], NO_SOLUTION):
                    v.fail("batch-msg", f"no-solution game: pruned entry says {m1!r}")
                if not entry_not_solved(res["g_no_prune"]):
                    v.fail("batch-msg", f"no-solution game: unpruned entry says {m2!r}", sig="unpruned")
            elif not undecided0:
                if not entry_solved(res["g"]) or not entry_solved(res["g_no_prune"]):
                    v.fail("batch-msg", f"solvable game (value {float(p0):.4g}): messages {m1!r} / {m2!r}", sig="solvable")
                else:
                    for key in want_keys:
                        e = res[key]
                        tup = (e["final_strategies"], e["reachability_strategies"], e["rewards"], e["probabilities"],
                               e["n_iterations_reach"], e["n_iterations_rew"], e["prob_min_rew"], e["rew_min_reach"])
                        well_shaped(v, game, tup, f"run_games[{key}]")
    v.nontrivial = nt
    return v
