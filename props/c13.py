"""C13 - results do not depend on how the game is written down (metamorphic).

META: renumber the states (state 0 fixed), reorder the transitions inside every
state (and the final list), rename actions injectively; solve both descriptions;
probabilities and rewards must move with the renumbering (within tolerance),
strategies with the renaming (order following the transformed transition order),
solvability must not change.  No reference solver decides the verdict; the exact
oracle is only used to size the tolerance on small games.
"""
import random

from hypothesis import strategies as st

from harness import boards, exact, games
from harness.analysis import GameFacts, Solved, T_MAX, bellman_reward
from harness.exact import OracleError
from harness.games import P1, P2, PR
from harness.runner import Phase, Verdict, active_known
from harness.sut import solve

ID = "C13"
LEVEL = "exploration"
TECHNIQUE = ("metamorphic property-based testing (Hypothesis): state renumbering x transition reordering x action renaming, "
             "results compared up to the transformation")
LEVEL_TEXT = ("Generated stopping games (3-14 states, most with several dead successors and a cycle) and generator boards "
              "(to 4x4; one 10x5 in the thorough tier), each solved as written and after a drawn transformation "
              "(permutation fixing state 0, independent transition orders, injective renaming incl. swaps), in both "
              "pruning modes; probabilities/rewards compared up to the permutation within 2 x threshold x (T+1), "
              "strategies up to the renaming with transformed order, solvability equal. Exploration; needs no oracle, so "
              "it also covers games too large for exact solving."
              ' Added while validating sensitivity: on generated games every state is compared (not only those reachable from the initial state); medium-size games of 20-300 states.'
              ' Later rounds: twin swaps, corridors, rounding-boundary triples in all orders, rings numbered with and against the direction of travel (1 400 against 28 000 sweeps), an eleven-entry chance row in eight orders.')
LEVEL_NOTE = ("Trusted: the transformation code in props/c13.py. The two diagnostic vectors are NOT part of the relation "
              "(the statement does not name them and they legitimately follow the last of several reward-equal "
              "successors). Near-tie strategy differences are attributed to known finding K1 by signature.")
RULE = ("case = (game or board, transformation, pruning mode). Non-trivial = the transformed description differs from the "
        "original and the game has a list with >= 2 dead successors or a cycle. Distinct = different (game, "
        "transformation, mode).")
ASSUMPTIONS = ["tolerance: 2 x threshold x (T+1) with T exact for generated games; for boards the harness's float estimate "
               "of the conditioned game's maximal expected absorption time (numeric comparison skipped if it does not "
               "converge)", "diagnostic vectors are not compared"]
CLASS_FLOORS = {"nontrivial": 0.3}
K1 = "K1"
K3 = "K3"


def apply_transform(game, pi, orders, rho, forder):
    n = len(game["players"])
    players = [None] * n
    rew = [None] * n
    tl = [None] * n
    for s in range(n):
        players[pi[s]] = game["players"][s]
        rew[pi[s]] = game["rewards"][s]
        lst = game["transition_list"][s]
        new = []
        for k in orders[s]:
            lab, t = lst[k]
            if game["players"][s] != PR:
                lab = rho.get(lab, lab)
            new.append((lab, pi[t]))
        tl[pi[s]] = new
    finals = [pi[game["final_states"][k]] for k in forder]
    return dict(rewards=rew, players=players, transition_list=tl, final_states=finals)


@st.composite
def transforms(draw, game, which=None):
    n = len(game["players"])
    if which is None:
        which = draw(st.sampled_from(("perm", "order", "rename", "all", "all")))
    pi = list(range(n))
    if which in ("perm", "all") and n > 2:
        rest = draw(st.permutations(list(range(1, n))))
        pi = [0] + list(rest)
    orders = [list(range(len(l))) for l in game["transition_list"]]
    forder = list(range(len(game["final_states"])))
    if which in ("order", "all"):
        orders = [list(draw(st.permutations(o))) if len(o) > 1 else o for o in orders]
        if len(forder) > 1:
            forder = list(draw(st.permutations(forder)))
    rho = {}
    if which in ("rename", "all"):
        names = sorted({a for pl, l in zip(game["players"], game["transition_list"]) if pl != PR for a, _ in l})
        mode = draw(st.sampled_from(("swap", "fresh", "shift")))
        if mode == "swap" and len(names) >= 2:
            a, b = draw(st.lists(st.sampled_from(names), min_size=2, max_size=2, unique=True))
            rho = {a: b, b: a}
        elif mode == "shift":
            rho = {a: names[(i + 1) % len(names)] for i, a in enumerate(names)}
        else:
            rho = {a: "z" + a + "'" for a in names}
    return dict(pi=pi, orders=orders, rho=rho, forder=forder, which=which)


@st.composite
def game_cases(draw, max_inner=10):
    g = draw(games.stopping_games(min_inner=2, max_inner=max_inner, max_sinks=3, inner_finals=True))
    t = draw(transforms(g))
    return dict(kind="game", game=g, t=t, prune=games.coin(draw))


@st.composite
def twin_swap_cases(draw):
    """A game with a Player 1 state and a Player 2 state that have the same successor list; the transformation
    swaps exactly those two states and reorders their common predecessor's transitions, so that - when the
    predecessor is probabilistic and splits its mass evenly between them - the transformed description has
    character-identical transition lists and differs from the original only in `players` / `rewards`."""
    tw = draw(games.twin_games(min_inner=2, max_inner=8, dyadic=True))
    g = tw["game"]
    n = len(g["players"])
    twin = n - 1
    same = [s for s in range(n - 1) if g["transition_list"][s] == g["transition_list"][twin]
            and g["players"][s] != g["players"][twin] and g["players"][s] != PR]
    pi = list(range(n))
    orders = [list(range(len(l))) for l in g["transition_list"]]
    if same and twin != 0 and same[0] != 0:
        a = same[0]
        pi[a], pi[twin] = twin, a
        for s, lst in enumerate(g["transition_list"]):
            ia = [k for k, (_, t_) in enumerate(lst) if t_ == a]
            it = [k for k, (_, t_) in enumerate(lst) if t_ == twin]
            if len(ia) == 1 and len(it) == 1:
                o = orders[s]
                o[ia[0]], o[it[0]] = o[it[0]], o[ia[0]]
    t = dict(pi=pi, orders=orders, rho={}, forder=list(range(len(g["final_states"]))), which="twin_swap")
    return dict(kind="game", game=g, t=t, prune=games.coin(draw))


@st.composite
def board_cases(draw, max_len=3, max_wid=3):
    b = draw(boards.boards(max_len=max_len, max_wid=max_wid))
    return dict(kind="board", board=b, variant=draw(st.sampled_from("abc")), tkey=draw(st.integers(0, 10 ** 6)),
                prune=games.coin(draw))


def big_board(tier):
    def gen():
        if tier == "thorough":
            b = boards.random_board(47, 5, 10, 0.3, 6, False)
            for variant in "bc":
                yield dict(kind="board", board=b, variant=variant, tkey=7, prune=False)
    return gen


def medium_phase(tier):
    from harness import medium
    def gen():
        for c in medium.medium_cases(9 if tier == "quick" else 120, base_seed=13):
            for prune in (True, False):
                yield dict(kind="medium", seed=c["seed"], n_inner=c["n_inner"], tkey=c["seed"] % 1000, prune=prune)
    return gen


def boundary_triples():
    """Planted: a Player 1 (or Player 2) state over three lotteries: two whose winning chances are equal up to
    1e-12 but sit on opposite sides of a 6-digit rounding boundary, and a third in the lower bucket.  Solved
    in all six transition orders (as metamorphic pairs against the first order)."""
    import itertools
    for mid in (0.3000005, 0.6000015, 0.1234565):
        for owner in (P1, P2):
            pb, pc, pa = mid - 1e-12, mid + 1e-12, mid - 4e-7
            base = [("a", 3), ("b", 4), ("c", 5)]
            g = dict(rewards=[0, 0, 0, 2, 1000, 1], players=[owner, PR, PR, PR, PR, PR],
                     transition_list=[base, [(1, 1)], [(1, 2)], [(pa, 1), (1 - pa, 2)], [(pb, 1), (1 - pb, 2)],
                                      [(pc, 1), (1 - pc, 2)]], final_states=[1])
            for perm in itertools.permutations(range(3)):
                if perm == (0, 1, 2):
                    continue
                orders = [list(perm)] + [list(range(len(l))) for l in g["transition_list"][1:]]
                t = dict(pi=list(range(6)), orders=orders, rho={}, forder=[0], which="order")
                for prune in (True, False):
                    yield dict(kind="game", game=g, t=t, prune=prune)


def slow_rings():
    """Planted: a ring of N tiles that is left towards the goal with probability 0.01 per lap.  Numbered along
    the direction of travel one sweep carries a value round the whole ring, numbered against it only one tile:
    the two presentations need about 1 400 and 1 400 x N sweeps."""
    for N in (12, 20):
        gamble, bad, good = N + 1, N + 2, N + 3
        players, rewards, tl = [P1], [0], [[("enter", 1), ("gamble", gamble)]]
        for k in range(1, N + 1):
            nxt = k + 1 if k < N else 1
            if k == N:
                players.append(PR)
                tl.append([(0.99, 1), (0.01, good)])
            elif k == 5:
                players.append(P2)
                tl.append([("push", nxt)])
            elif k == 7:
                players.append(P1)
                tl.append([("walk", nxt)])
            else:
                players.append(PR)
                tl.append([(1, nxt)])
            rewards.append(1)
        players += [PR, PR, PR]
        rewards += [3, 0, 0]
        tl += [[(0.5, good), (0.5, bad)], [(1, bad)], [(1, good)]]
        g = dict(rewards=rewards, players=players, transition_list=tl, final_states=[good])
        pi = [0] + [N + 1 - k for k in range(1, N + 1)] + [gamble, bad, good]
        t = dict(pi=pi, orders=[list(range(len(l))) for l in tl], rho={}, forder=[0], which="perm")
        for prune in (True, False):
            yield dict(kind="game", game=g, t=t, prune=prune, allow_slow=True)


def wide_rows():
    """Planted: a chance state with eleven successors (0.5 and ten times 0.05): the float sum of the row depends
    on the order it is written in (it is exactly 1 in some orders and one ulp off in others)."""
    row = [(0.5, 3)] + [(0.05, 1 + (i % 3)) for i in range(10)]
    g = dict(rewards=[1, 0, 0, 2], players=[PR, PR, PR, PR],
             transition_list=[row, [(1, 1)], [(1, 2)], [(0.5, 1), (0.5, 2)]], final_states=[1])
    for shift in (1, 2, 5, 10):
        order0 = [(i + shift) % 11 for i in range(11)]
        for rev in (False, True):
            o = list(reversed(order0)) if rev else order0
            t = dict(pi=[0, 1, 2, 3], orders=[o, [0], [0], [0, 1]], rho={}, forder=[0], which="order")
            for prune in (True, False):
                yield dict(kind="game", game=g, t=t, prune=prune)


def corridor_phase(tier):
    def gen():
        # index into games.corridor_games(): (d, ascending, owner) in generator order, 4 per d
        picks = [(16, 5), (20, 6), (21, 7)] if tier == "quick" else [(8, 1), (12, 2), (16, 5), (17, 3), (20, 6), (21, 7), (22, 8), (23, 9)]
        for idx, key in picks:
            for prune in (True, False):
                yield dict(kind="corridor", idx=idx, tkey=key, prune=prune)
    return gen


def phases(tier):
    return [Phase("rounding-boundary-triples", enum=boundary_triples,
                  note="two values 1e-12 apart across a 6-digit rounding boundary plus a third in the lower bucket, all orders"),
            Phase("slow-rings-numbered-with-and-against-the-direction-of-travel", enum=slow_rings),
            Phase("wide-chance-rows-in-other-orders", enum=wide_rows),
            Phase("deep-corridors", enum=corridor_phase(tier),
                  note="corridors of 200-1030 states: a renumbering changes how many sweeps a value needs to arrive"),
            Phase("medium-size-games", enum=medium_phase(tier), note="stopping games of 20-300 states, no oracle needed"),
            Phase("stopping-games", strategy=lambda: game_cases(10 if tier == "quick" else 12), examples=(900, 40000)),
            Phase("twin-swaps", strategy=twin_swap_cases, examples=(250, 10000),
                  note="swap a Player 1 state with a Player 2 state that has the same successor list"),
            Phase("boards", strategy=lambda: board_cases(3, 3) if tier == "quick" else board_cases(4, 4),
                  examples=(50, 1200)),
            Phase("big-board", enum=big_board(tier))]


def derived_transform(game, key):
    """Transformation for board games, a pure function of (game, key)."""
    rnd = random.Random(key)
    n = len(game["players"])
    rest = list(range(1, n))
    rnd.shuffle(rest)
    pi = [0] + rest
    orders = []
    for l in game["transition_list"]:
        o = list(range(len(l)))
        rnd.shuffle(o)
        orders.append(o)
    names = sorted({a for pl, l in zip(game["players"], game["transition_list"]) if pl != PR for a, _ in l})
    sh = names[:]
    rnd.shuffle(sh)
    rho = dict(zip(names, sh))
    return dict(pi=pi, orders=orders, rho=rho, forder=list(range(len(game["final_states"]))), which="all")


def float_T(cg, cap=4000):
    """Float estimate of the maximal expected number of steps to absorption (both players maximising)."""
    n = len(cg["players"])
    absorbing = [not cg["transition_list"][s] or all(t == s for _, t in cg["transition_list"][s]) for s in range(n)]
    v = [0.0] * n
    for _ in range(cap):
        d = 0.0
        for s in range(n):
            if absorbing[s]:
                continue
            lst = cg["transition_list"][s]
            if cg["players"][s] == PR:
                x = 1 + sum(float(p) * v[t] for p, t in lst)
            else:
                x = 1 + max(v[t] for _, t in lst)
            d = max(d, abs(x - v[s]))
            v[s] = x
        if d < 1e-7:
            return max(v)
        if max(v) > 1e5:
            return None
    return None


def check_case(case):
    v = Verdict()
    prune = case["prune"]
    v.cls("prune" if prune else "no_prune")
    known = active_known(ID)
    if case["kind"] == "board":
        game = boards.games_from_board(case["board"])["game_" + case["variant"]]
        t = derived_transform(game, case["tkey"])
        v.key = case
        v.cls("board")
        small = False
    elif case["kind"] in ("medium", "corridor"):
        from harness import medium
        if case["kind"] == "medium":
            game = medium.medium_game(case["seed"], case["n_inner"])
        else:
            game = list(games.corridor_games())[case["idx"]][0]
        t = derived_transform(game, case["tkey"])
        v.key = case
        v.cls(case["kind"])
        small = False
    else:
        game = case["game"]
        t = case["t"]
        small = True
    v.cls("transform_" + t["which"])
    n = len(game["players"])
    pi, rho = t["pi"], t["rho"]
    tgame = apply_transform(game, pi, t["orders"], rho, t["forder"])
    changed = tgame != game
    if changed and tgame["transition_list"] == game["transition_list"]:
        v.cls("identical_transition_lists_different_owners")
    if small:
        facts = GameFacts(game, allow_slow=bool(case.get("allow_slow")))
        try:
            if facts.too_slow:
                v.inconclusive = "T>300"
                return v
            pstar = facts.pstar
        except OracleError as e:
            v.inconclusive = f"oracle: {e}"
            return v
        a = Solved(facts, prune)
        b = Solved(GameFacts(tgame, allow_slow=bool(case.get("allow_slow"))), prune)
        oa, ob = a.outcome, b.outcome
        dead2 = any(sum(1 for _, x in l if pstar[x] == 0) >= 2 for pl, l in zip(game["players"], game["transition_list"])
                    if pl != P2)
        if dead2:
            v.cls("dead>=2")
        if facts.has_cycle:
            v.cls("cycle")
        v.nontrivial = changed and (dead2 or facts.has_cycle)
    else:
        if case["kind"] in ("medium", "corridor"):
            oa, ia = medium.solve_medium(game, prune)
            ob, ib = medium.solve_medium(tgame, prune)
            if oa is None or ob is None:
                v.inconclusive = "T^ not usable"
                return v
        else:
            oa = solve(game, prune, sweeps=4000)
            ob = solve(tgame, prune, sweeps=4000)
        v.nontrivial = changed
    if v.nontrivial:
        v.cls("nontrivial")
    for o in (oa, ob):
        if o.kind in ("budget", "skipped"):
            v.inconclusive = "sweep budget / T_c limit (termination is C06's business)"
            return v
    # solvability
    if oa.kind != ob.kind:
        if prune and {oa.kind, ob.kind} == {"ok", "nosol"}:
            # K3 with the initial state as the sub-threshold state: one presentation still holds exactly 0 there when
            # the sweeps stop ('no solution'), the other has received a positive figure below the solver's threshold
            p0 = (oa if oa.kind == "ok" else ob).result[3][0]
            if isinstance(p0, (int, float)) and 0 < p0 <= 1e-5:
                v.fail("solvability-differs", f"original: {oa.brief()}; transformed ({t['which']}): {ob.brief()}; the "
                                              f"solved presentation reports {p0!r} for the initial state (below the "
                                              f"solver's threshold)", sig="zero-set-initial",
                       known=K3 if K3 in known else None)
                return v
        v.fail("solvability-differs", f"original: {oa.brief()}; transformed ({t['which']}): {ob.brief()}",
               sig=f"{oa.kind}->{ob.kind}")
        return v
    if oa.kind == "nosol":
        v.cls("no_solution")
        return v
    if oa.kind != "ok":
        if type(oa.exc) is not type(ob.exc):
            v.fail("solvability-differs", f"original: {oa.brief()}; transformed: {ob.brief()}", sig="exc-type")
        if small:
            v.fail("solve-raises", "a well-formed stopping game is not solved: " + oa.brief(), sig=f"{oa.kind}@{oa.where}")
        else:
            v.inconclusive = "both board descriptions fail to solve"
        return v
    fa, ra, rwa, pa = oa.result[0], oa.result[1], oa.result[2], oa.result[3]
    fb, rb, rwb, pb = ob.result[0], ob.result[1], ob.result[2], ob.result[3]
    # tolerance
    if small:
        tolp = 2e-6 * (float(facts.T) + 1) + 1e-9
        try:
            Tc = max(a.Tc, b.Tc)
            tolr = 2e-6 * (float(Tc) + 1) + 1e-9 * (1 + max([abs(x) for x in rwa] + [0]))
        except OracleError:
            tolr = None
    else:
        cg = exact.conditioned_game(game, ra, pa, prune)
        Tf = float_T(cg)
        Tg = float_T(game)
        tolp = 2e-6 * (Tg + 1) + 1e-9 if Tg is not None else None
        tolr = 2e-6 * (Tf + 1) + 1e-9 * (1 + max([abs(x) for x in rwa] + [0])) if Tf is not None else None
        if tolp is None or tolr is None:
            v.cls("board_numeric_comparison_skipped")
    # probabilities
    if tolp is not None:
        for s in range(n):
            if abs(pa[s] - pb[pi[s]]) > tolp:
                v.fail("probability-depends-on-presentation", f"state {s} -> {pi[s]}: {pa[s]!r} vs {pb[pi[s]]!r} "
                                                              f"(tol {tolp:.3g}, transformation {t['which']})")
                break
    # K3: with pruning on, which states count as dead is decided by `reported probability == 0`.  A state whose
    # true value is positive but below the solver's threshold may or may not have received its (tiny) value when
    # the iteration stops - that depends on the sweep order, i.e. on the numbering.  If the two runs disagree on
    # the zero set ONLY at such sub-threshold states, they condition on different games, and their rewards and
    # final strategies legitimately (for this implementation) differ: known finding K3, matched by signature.
    k3 = False
    if prune:
        za = {s for s in range(n) if pa[s] == 0}
        zb = {s for s in range(n) if pb[pi[s]] == 0}
        if za != zb:
            sub = max(max(pa[s], pb[pi[s]]) for s in za ^ zb)
            if sub <= (tolp if tolp is not None else 1e-5):
                k3 = True
                v.cls("zero_set_differs_below_threshold")
                v.fail("sub-threshold-states-pruned-differently",
                       f"pruned solve: the runs disagree on which of the states {sorted(za ^ zb)[:8]} are reported "
                       f"with probability exactly 0 (largest value among them {sub:.3g}, below the threshold), so "
                       f"they condition on different games (transformation {t['which']})",
                       sig="zero-set", known=K3 if K3 in known else None)
    # strategies
    near_reach_p1 = False
    near_final = False
    ptol = (tolp or 1e-5) + 1e-6
    rtol = (tolr or 1e-4) + 1e-6

    def compare(kind, sa, sb, vals_a, vals_b, tol_):
        nonlocal near_reach_p1, near_final
        for s in range(n):
            pl = game["players"][s]
            x, y = sa[s], sb[pi[s]]
            if pl == PR:
                if x is not None or y is not None:
                    v.fail("probabilistic-has-strategy", f"{kind}: state {s}: {x!r} / {y!r}")
                continue
            if not isinstance(x, list) or not isinstance(y, list):
                v.fail("strategy-not-a-list", f"{kind}: state {s}: {x!r} / {y!r}")
                continue
            tlist = tgame["transition_list"][pi[s]]
            want = [lab for lab, _ in tlist if lab in {rho.get(a_, a_) for a_ in x}]
            if y == want:
                continue
            if set(y) == set(want):
                v.fail("strategy-order-depends-on-presentation", f"{kind}: state {s}->{pi[s]}: {y} expected {want}")
                continue
            # near-tie attribution (K1): every action in the symmetric difference leads, in both runs, to a
            # successor whose value is within tolerance of that run's optimum
            inv = {rho.get(a_, a_): a_ for a_, _ in game["transition_list"][s]}
            diff = set(y) ^ set(want)
            ok_near = True
            for lab in diff:
                a0 = inv.get(lab)
                if a0 is None:
                    ok_near = False
                    break
                t0 = dict(game["transition_list"][s])[a0]
                t1 = dict(tlist)[lab]
                succ_a = [vals_a[t_] for a_, t_ in game["transition_list"][s]
                          if kind == "reachability" or a_ in ra[s] or pl == P2]
                succ_b = [vals_b[t_] for l_, t_ in tlist if kind == "reachability" or l_ in rb[pi[s]] or pl == P2]
                opt_a = (max if pl == P1 else min)(succ_a) if succ_a else 0
                opt_b = (max if pl == P1 else min)(succ_b) if succ_b else 0
                if abs(vals_a[t0] - opt_a) > tol_ or abs(vals_b[t1] - opt_b) > tol_:
                    ok_near = False
                    break
            if ok_near:
                # K1 also requires that each run's list IS the arg-opt of its own reported values rounded to
                # 6 digits (the rounding split is the only thing that went "wrong"); otherwise something else
                # than rounding decided the list
                def argopt(entries, vals):
                    if not entries:
                        return []
                    rv = [round(vals[t_], 6) for _, t_ in entries]
                    best = max(rv) if pl == P1 else min(rv)
                    if pl == P1:
                        best = max(best, 0)
                    return [l_ for (l_, _), r_ in zip(entries, rv) if r_ == best]
                if kind == "reachability":
                    ea, eb = game["transition_list"][s], tlist
                else:
                    ea = cga["transition_list"][s]
                    eb = cgb["transition_list"][pi[s]]
                if argopt(ea, vals_a) != sa[s] or argopt(eb, vals_b) != sb[pi[s]]:
                    ok_near = False
            if ok_near:
                if kind == "reachability" and pl == P1:
                    near_reach_p1 = True
                if kind == "final":
                    near_final = True
                v.fail("near-tie-split-by-rounding", f"{kind}: state {s}->{pi[s]}: {x} vs {y} (expected {want}); all "
                                                     f"differing actions are within tolerance of the optimum in both runs",
                       sig=kind, known=K1 if K1 in known else None)
            else:
                v.fail("strategy-depends-on-presentation", f"{kind}: state {s}->{pi[s]} ({pl}): original {x}, transformed "
                                                           f"{y}, expected {want} (transformation {t['which']}); original "
                                                           f"list {game['transition_list'][s]}, transformed {tlist}",
                       sig=f"{kind}:{pl}")
    cga = exact.conditioned_game(game, ra, pa, prune)
    cgb = exact.conditioned_game(tgame, rb, pb, prune)
    compare("reachability", ra, rb, pa, pb, ptol)
    if k3:
        v.cls("rewards_not_compared_after_zero_set_difference")
        return v
    if not near_reach_p1:
        # every state is compared, reachable from the initial state or not: the conditioned game of a stopping
        # game is stopping as a whole, so all its values are presentation independent (small games: tolerance
        # from the exact T_c of the whole conditioned game); boards: states in scope only (they need not stop)
        scope = set(range(n))
        if prune and not small:
            scope = exact.forward_reachable(cga, 0)
        if tolr is not None:
            for s in sorted(scope):
                if abs(rwa[s] - rwb[pi[s]]) > tolr:
                    where = "" if s in exact.forward_reachable(cga, 0) else " (a state not reachable from the initial state)"
                    v.fail("reward-depends-on-presentation", f"state {s} -> {pi[s]}{where}: {rwa[s]!r} vs {rwb[pi[s]]!r} "
                                                             f"(tol {tolr:.3g}, transformation {t['which']})")
                    break
        sa = [fa[s] if s in scope else (None if game["players"][s] == PR else fb[pi[s]] and
              [a_ for a_, _ in game["transition_list"][s] if rho.get(a_, a_) in fb[pi[s]]]) for s in range(n)]
        compare("final", sa, fb, rwa, rwb, rtol)
    else:
        v.cls("rewards_not_compared_after_p1_near_tie")
    return v
