"""C17 - generated file names identify the parameters that produced them.

REF: the harness's own name parser must return exactly the parameters that were
passed (round trip), which implies injectivity on whole-percent parameter sets;
additionally two different sampled parameter sets must produce different paths.
Exhaustive in k: every whole percent 1..99 for each of the four probabilities.
"""
import os
import re

from hypothesis import strategies as st

from harness import boards
from harness.load import repo
from harness.runner import Phase, Verdict

ID = "C17"
LEVEL = "exploration"
TECHNIQUE = ("exhaustive sweep of every whole-percent value for each probability + property-based testing (Hypothesis) of "
             "parameter tuples, against an independent file-name parser (round trip, injectivity)")
LEVEL_TEXT = ("Exhaustive core: each of the four probabilities takes every value k/100, k = 1..99, through the real "
              "command-line entry point (396 generator runs) and through prob_to_str; the manual entry point is swept "
              "for its three probabilities. Beyond it: sampled pairs of full parameter sets (seed, sizes, maximum reward, "
              "four whole percents, force-down) whose paths must parse back to the parameters and differ when the sets "
              "differ. Exploration with an exhaustive core in k."
              ' Later rounds: generated hand-made boards of 1-4 rows and columns (largest reward and down-only tile anywhere, fractional rewards), seeds beyond 2^64.')
LEVEL_NOTE = ("Trusted: the regular-expression name parser in props/c17.py. Only whole-percent probabilities are claimed "
              "(the statement says 'as whole percentages').")
RULE = ("case = one parameter set (exhaustive sweep) or a pair of parameter sets (sampled). Every case is non-trivial; "
        "class of interest: k for which k/100*100 is not exact in binary floating point. Distinct = different case.")
ASSUMPTIONS = ["probabilities are whole percents k/100 with k = 1..99"]
NAME = re.compile(r"^robot_(\d+)_w(\d+)_l(\d+)_r(\d+)_rb(\d+)_lb(\d+)_tb(\d+)_lt(\d+)(_force_down)?\.py$")
MANUAL = re.compile(r"^manual_robot_w(\d+)_l(\d+)_r(\d+(?:\.\d+)?)_rb(\d+)_lb(\d+)_tb(\d+)_(force_down)?\.py$")
FIELDS = ("rb", "lb", "tb", "lt")


def sweep():
    for field in FIELDS:
        for k in range(1, 100):
            p = dict(seed=1, width=1, length=1, max_reward=3, rb=10, lb=20, tb=30, lt=40, force_down=False)
            p[field] = k
            yield dict(kind="cli", params=p)
    for k in range(1, 100):
        yield dict(kind="prob_to_str", k=k)
    for field in ("rb", "lb", "tb"):
        for k in range(1, 100):
            p = dict(rb=10, lb=20, tb=30, force_down=bool(k % 2))
            p[field] = k
            if k % 4 == 0:
                p["top_reward"] = (2.5, 4.75, 12.125, 7.0)[k % 16 // 4]     # hand-made boards may carry fractional rewards
            yield dict(kind="manual", params=p)


def neighbours():
    """Two runs in ONE directory whose parameter sets differ by one percent in one probability (both orders): each
    must leave its own, correctly named file next to the other's, with the other's file untouched."""
    for field in FIELDS:
        for k in range(1, 99):
            if k % 3 and not (inexact(k) or inexact(k + 1)):
                continue
            base = dict(seed=2, width=2, length=2, max_reward=4, rb=10, lb=20, tb=30, lt=40, force_down=bool(k % 2))
            lo, hi = dict(base), dict(base)
            lo[field], hi[field] = k, k + 1
            yield dict(kind="neighbours", a=lo, b=hi)
            yield dict(kind="neighbours", a=hi, b=lo)


def longest_names():
    """Seeds with so many digits that the generated file name is 246-255 characters long (255 is the usual limit
    of one path component): the name must still state the whole seed (and two such seeds must not share a file)."""
    try:
        name_max = os.pathconf(os.path.join(boards.scratch_dir(), "inputs"), "PC_NAME_MAX")
    except (OSError, ValueError, AttributeError):
        name_max = 255
    name_max = min(int(name_max), 255)
    for fd in (False, True):
        base = len("robot__w1_l1_r3_rb10_lb20_tb30_lt40.py") + (len("_force_down") if fd else 0)
        for total in (name_max - 9, name_max - 7, name_max - 6, name_max - 3, name_max - 1, name_max):
            digits = total - base
            p = dict(seed=int("7" + "3" * (digits - 1)), width=1, length=1, max_reward=3, rb=10, lb=20, tb=30, lt=40,
                     force_down=fd)
            yield dict(kind="cli", params=p)
            q = dict(p, seed=p["seed"] + 1)
            yield dict(kind="pair", a=p, b=q)


PCT = st.integers(1, 99)


@st.composite
def param_sets(draw):
    dims = draw(st.sampled_from(((1, 1), (1, 2), (2, 1), (2, 3), (3, 2), (3, 3), (1, 9), (10, 1), (1, 11), (12, 2), (2, 12),
                                 (1, 25), (100, 1), (1, 101), (10, 10), (11, 12))))
    return dict(seed=draw(st.one_of(st.integers(0, 50), st.integers(0, 10 ** 12), st.sampled_from((2 ** 31, 2 ** 32, 2 ** 63, 2 ** 64 + 1, 10 ** 18)))),
                width=dims[0], length=dims[1],
                max_reward=draw(st.sampled_from((1, 6, 9, 10, 60, 99, 100, 1000, 1023, 10 ** 6))), rb=draw(PCT),
                lb=draw(PCT), tb=draw(PCT), lt=draw(PCT), force_down=draw(st.booleans()))


@st.composite
def pairs(draw):
    a = draw(param_sets())
    b = dict(a)
    # the second set differs from the first in 1-3 fields (near misses are where names collide)
    for f in draw(st.lists(st.sampled_from(sorted(a)), min_size=1, max_size=3, unique=True)):
        b[f] = draw(param_sets())[f]
    return dict(kind="pair", a=a, b=b)


@st.composite
def manual_boards(draw):
    """Hand-made boards of several rows for the manual entry point: the largest reward and the down-only
    tile (which the name reports as force_down) can sit anywhere on the board."""
    length, width = draw(st.integers(1, 4)), draw(st.integers(1, 4))
    pool = draw(st.sampled_from(((0, 1, 2, 3, 4, 5, 9, 10, 11), (0, 0.5, 1.25, 2.5, 4.75, 7.0, 12.125), (0, 1, 2, 99, 100, 1000))))
    rewards = [[draw(st.sampled_from(pool)) for _ in range(width)] for _ in range(length)]
    moves = [[draw(st.integers(0, 2)) for _ in range(width)] for _ in range(length)]
    if draw(st.booleans()):
        moves[draw(st.integers(0, length - 1))][draw(st.integers(0, width - 1))] = 3
    loose = [[draw(st.integers(0, 1)) for _ in range(width)] for _ in range(length)]
    return dict(kind="manual", params=dict(rb=draw(PCT), lb=draw(PCT), tb=draw(PCT), board=[moves, rewards, loose]))


def phases(tier):
    return [Phase("whole-percent-sweep", enum=sweep, exhaustive=True,
                  note="k = 1..99 for each probability via main(), prob_to_str and the manual entry point"),
            Phase("neighbouring-percents-in-one-directory", enum=neighbours,
                  note="k then k+1 (and k+1 then k) percent written into the same inputs/ directory"),
            Phase("longest-file-names", enum=longest_names, note="seeds of 200+ digits: names of 246-255 characters"),
            Phase("parameter-pairs", strategy=pairs, examples=(250, 15000)),
            Phase("hand-made-boards", strategy=manual_boards, examples=(250, 8000))]


def inexact(k):
    return (k / 100) * 100 != k


def generate(p):
    args = boards.cli_args(p["seed"], p["width"], p["length"], p["rb"] / 100, p["lb"] / 100, p["tb"] / 100,
                           p["lt"] / 100, p["max_reward"], p["force_down"])
    kind, e, files = boards.run_generator_cli(args)
    return args, kind, e, sorted(files)


def check_name(v, p, args, kind, e, files):
    if kind != "ok":
        v.fail("generator-raises", f"main({' '.join(args)}) failed: {type(e).__name__}: {e}", sig=type(e).__name__)
        return None
    if len(files) != 1:
        v.fail("file-count", f"main({' '.join(args)}) left {files}")
        return None
    m = NAME.match(files[0])
    if not m:
        v.fail("name-does-not-parse", f"main({' '.join(args)}) wrote {files[0]!r}")
        return files[0]
    got = dict(seed=int(m[1]), width=int(m[2]), length=int(m[3]), max_reward=int(m[4]), rb=int(m[5]), lb=int(m[6]),
               tb=int(m[7]), lt=int(m[8]), force_down=bool(m[9]))
    bad = {f: (p[f], got[f]) for f in got if got[f] != p[f]}
    if bad:
        f0 = sorted(bad)[0]
        v.fail("name-misstates-parameter", f"main({' '.join(args)}) wrote {files[0]!r}: " +
               ", ".join(f"{f} given {a} but named {b}" for f, (a, b) in sorted(bad.items())), sig=f0)
    return files[0]


def check_case(case):
    v = Verdict()
    v.nontrivial = True
    r = repo()
    if case["kind"] == "cli":
        p = case["params"]
        if any(inexact(p[f]) for f in FIELDS):
            v.cls("k_inexact_in_binary")
        v.cls("cli_sweep")
        check_name(v, p, *generate(p))
    elif case["kind"] == "prob_to_str":
        k = case["k"]
        v.cls("prob_to_str")
        if inexact(k):
            v.cls("k_inexact_in_binary")
        for prob in (k / 100, float(f"0.{k:02d}")):
            try:
                s = r.roberta_generator.prob_to_str(prob)
            except Exception as e:
                v.fail("prob_to_str-raises", f"prob_to_str({prob!r}): {type(e).__name__}: {e}")
                continue
            if s != str(k):
                v.fail("percentage-wrong", f"prob_to_str({prob!r}) = {s!r}, expected {str(k)!r}")
    elif case["kind"] == "manual":
        p = case["params"]
        v.cls("manual_entry_point")
        if "board" in p:
            moves, rewards, loose = p["board"]
            fd = any(m == 3 for row in moves for m in row)
            top = max(x for row in rewards for x in row)
            v.cls("manual_board_generated")
            if max(max(rewards)) != top:
                v.cls("largest_reward_outside_the_lexicographically_largest_row")
        else:
            fd = p["force_down"]
            moves, top = [[3 if fd else 1, 0]], p.get("top_reward", 4)
            rewards, loose = [[top, 2]], [[0, 1]]
        d = boards.clean_scratch()
        cwd = os.getcwd()
        os.chdir(d)
        try:
            try:
                r.stochastic_game_from_roborta_board.create_sg_from_board(
                    [list(row) for row in moves], [list(row) for row in rewards], [list(row) for row in loose],
                    p["rb"] / 100, p["lb"] / 100, p["tb"] / 100)
            except Exception as e:
                v.fail("generator-raises", f"create_sg_from_board: {type(e).__name__}: {e}", sig=type(e).__name__)
                return v
            files = sorted(os.listdir("inputs"))
        finally:
            os.chdir(cwd)
        if len(files) != 1 or not MANUAL.match(files[0]):
            v.fail("name-does-not-parse", f"manual entry point wrote {files}")
            return v
        m = MANUAL.match(files[0])
        got = dict(width=int(m[1]), length=int(m[2]), max_reward=float(m[3]), rb=int(m[4]), lb=int(m[5]), tb=int(m[6]),
                   force_down=bool(m[7]))
        want = dict(width=len(moves[0]), length=len(moves), max_reward=float(top), rb=p["rb"], lb=p["lb"], tb=p["tb"],
                    force_down=fd)
        bad = {f: (want[f], got[f]) for f in want if want[f] != got[f]}
        if bad:
            v.fail("name-misstates-parameter", f"manual entry point wrote {files[0]!r}: " +
                   ", ".join(f"{f} given {a} but named {b}" for f, (a, b) in sorted(bad.items())), sig=sorted(bad)[0])
    elif case["kind"] == "neighbours":
        a, b = case["a"], case["b"]
        v.cls("two_runs_in_one_directory")
        if any(inexact(x[f]) for x in (a, b) for f in FIELDS):
            v.cls("k_inexact_in_binary")
        args_a, kind, e, files = generate(a)
        na = check_name(v, a, args_a, kind, e, files)
        if na is None or v.fails:
            return v
        first = boards.run_generator_cli(args_a, clean=False)[2][na]            # the bytes of the first file
        args_b = boards.cli_args(b["seed"], b["width"], b["length"], b["rb"] / 100, b["lb"] / 100, b["tb"] / 100,
                                 b["lt"] / 100, b["max_reward"], b["force_down"])
        kind, e, files2 = boards.run_generator_cli(args_b, clean=False)
        if kind != "ok":
            v.fail("generator-raises", f"main({' '.join(args_b)}) after main({' '.join(args_a)}) failed: "
                                       f"{type(e).__name__}: {e}", sig=type(e).__name__)
            return v
        new = sorted(set(files2) - {na})
        if files2.get(na) != first:
            v.fail("earlier-file-disturbed", f"main({' '.join(args_b)}) in the directory that held {na!r} changed or "
                                             f"removed that file; directory now {sorted(files2)}")
        elif len(new) != 1:
            v.fail("file-count", f"main({' '.join(args_b)}) after main({' '.join(args_a)}) left {sorted(files2)}")
        else:
            check_name(v, b, args_b, "ok", None, new)
        boards.clean_scratch()
    else:
        a, b = case["a"], case["b"]
        v.cls("pair", "pair_differs" if a != b else "pair_equal")
        na = check_name(v, a, *generate(a))
        nb = check_name(v, b, *generate(b))
        if na is not None and nb is not None:
            if a != b and na == nb:
                v.fail("two-parameter-sets-share-a-file", f"{a} and {b} both wrote {na!r}")
            if a == b and na != nb:
                v.fail("same-parameters-different-name", f"{a} wrote {na!r} and {nb!r}")
    return v
