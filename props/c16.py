"""C16 - the saved report states exactly what was computed; the input file is read into the games it denotes.

REF: an independent report parser (blocks split on the 160-'=' rule, the 14
labelled lines in fixed order, values parsed with ast.literal_eval + inf/nan) and
a pretty-printer over literal syntax that tracks the value each spelling denotes.
The reader is eval-based, so only literal syntax is ever fed to it.
"""
import ast
import copy
import os
import subprocess
import sys

from hypothesis import strategies as st

from harness import boards, games
from harness.analysis import GameFacts, T_MAX, budgeted_many
from harness.budget import BudgetExceeded
from harness.exact import OracleError
from harness.games import P1, P2, PR
from harness.load import repo
from harness.runner import Phase, Verdict
from harness.sut import SkipSolve
from props.c09 import faults
from props.c10 import structure

ID = "C16"
LEVEL = "exploration"
TECHNIQUE = ("property-based testing (Hypothesis): round trip through an independent report parser (real pipeline and "
             "synthetic result values) and a literal-syntax pretty-printer for input files")
LEVEL_TEXT = ("Generated input files (1-4 games: stopping, no-solution, malformed; names with underscores and digits; "
              "several literal spellings, comments, trailing commas, multi-line layout) are run through the real "
              "conditionalrewards.main() with -s in a scratch directory while capturing what run_games returned; the "
              "report is parsed by an independent parser and compared field by field, the reader's result with the "
              "denoted dict (types included). Synthetic result dicts exercise every value kind (None, [], nested None, "
              "long float vectors, ints, inf, punctuation). A few cases go through a real subprocess. Exploration."
              ' Added while validating sensitivity: file stems ending in the letters of the extension, several path spellings, related (reach, final) strategy pairs, reports with vectors of 10^4 entries and 130 games.')
LEVEL_NOTE = ("Trusted: the report parser and pretty-printer in props/c16.py. File texts use literal syntax only (the "
              "reader executes its input, so unstructured text is never fed to it). Names and messages contain no line "
              "breaks.")
RULE = ("case = ('pipeline', games + spelling choices + file name) | ('synthetic', result dict + file name) | ('cli', ...). "
        "Non-trivial = report with >= 2 games, or an entry with None fields / a failure message / an empty strategy list. "
        "Distinct = different case.")
ASSUMPTIONS = ["file and game names match [A-Za-z0-9_]+ ('.py' extension); names do not end in '_no_prune'",
               "the field 'Total time' is only required to parse as a non-negative float in pipeline cases"]
SEP = "=" * 160
LABELS = [("Running example", "name"), ("Message", "msg"), ("number of states", "n_states"),
          ("number of transitions", "n_transitions"), ("n iterations reach", "n_iterations_reach"),
          ("n iterations rew", "n_iterations_rew"), ("Reachability strategies", "reachability_strategies"),
          ("Final strategies", "final_strategies"), ("Are equal", "are_equal"), ("Probabilities", "probabilities"),
          ("Probabilities min rew", "prob_min_rew"), ("Rewards", "rewards"), ("Rewards min reach", "rew_min_reach"),
          ("Total time", "total_time")]
# letters include p and y (the characters of the ".py" extension) on purpose
IDENT = st.one_of(st.text(alphabet="abpyXYP0123_", min_size=1, max_size=8).filter(lambda s: not s.endswith("_no_prune")),
                  st.text(alphabet="abpyXYP0123_", min_size=1, max_size=8).filter(lambda s: not s.endswith("_no_prune")),
                  st.text(alphabet="abpyXYP0123_", min_size=1, max_size=8).filter(lambda s: not s.endswith("_no_prune")),
                  # a game (or file) may be called like one of the solver's own field names
                  st.sampled_from(("rewards", "players", "transition_list", "final_states", "prune_states", "name", "msg",
                                   "game", "games", "self")))


# ----------------------------------------------------------------------------- independent report parser
class ParseError(Exception):
    pass


def parse_value(text):
    """ast.literal_eval extended with the tokens inf / -inf / nan that float repr produces."""
    try:
        tree = ast.parse(text, mode="eval")
    except SyntaxError as e:
        raise ParseError(f"cannot parse value {text[:60]!r}: {e}")

    def ev(node):
        if isinstance(node, ast.Expression):
            return ev(node.body)
        if isinstance(node, ast.Constant):
            return node.value
        if isinstance(node, ast.List):
            return [ev(e) for e in node.elts]
        if isinstance(node, ast.Tuple):
            return tuple(ev(e) for e in node.elts)
        if isinstance(node, ast.Name) and node.id in ("inf", "nan"):
            return float(node.id)
        if isinstance(node, ast.UnaryOp) and isinstance(node.op, ast.USub):
            return -ev(node.operand)
        raise ParseError(f"unexpected syntax in value {text[:60]!r}")
    return ev(tree)


def parse_report(text):
    """Blocks are introduced by the 160-'=' rule; inside a block every line is '<label> : <value>'.
    The labels the property names must each occur exactly once per block; other lines (a future
    extra field) are ignored, and neither the padding nor the order of the known lines is imposed."""
    if text and not text.endswith("\n"):
        raise ParseError("report does not end with a newline")
    lines = text.split("\n")[:-1] if text else []
    known = {label: key for label, key in LABELS}
    blocks = []
    cur = None
    for i, line in enumerate(lines):
        if line == SEP:
            cur = {}
            blocks.append(cur)
            continue
        if cur is None:
            raise ParseError(f"line {i + 1}: text before the first block rule: {line[:40]!r}")
        if ": " not in line and not line.rstrip().endswith(":"):
            raise ParseError(f"line {i + 1}: not a 'label : value' line: {line[:40]!r}")
        label, _, raw = line.partition(": ") if ": " in line else (line.rstrip()[:-1], "", "")
        key = known.get(label.strip())
        if key is None:
            continue
        if key in cur:
            raise ParseError(f"line {i + 1}: label {label.strip()!r} occurs twice in one block")
        cur[key] = raw if key in ("name", "msg") else parse_value(raw)
    for b in blocks:
        missing = [label for label, key in LABELS if key not in b]
        if missing:
            raise ParseError(f"block {b.get('name')!r} lacks the line(s) {missing}")
    return blocks


# ----------------------------------------------------------------------------- literal pretty-printer
def render_number(x, style):
    """Return (text, denoted value)."""
    if isinstance(x, float):
        if style == 1 and x == int(x) and abs(x) < 1e6:
            return f"{int(x)}.0", float(int(x))
        if style == 2 and 0 < x < 1:
            r = repr(x)
            if r.startswith("0."):
                return r[1:], float(r[1:])
        if style == 3:
            return f"{x!r:>12}".strip(), x
        return repr(x), x
    if isinstance(x, int) and not isinstance(x, bool):
        if style == 2 and x == 1000:
            return "10**3", 10 ** 3
        if style == 1 and x and x % 5 == 0:
            return f"{x * 3}//3", x * 3 // 3
        return repr(x), x
    return repr(x), x


def render_game(g, style, q):
    """Render a game dict in literal syntax; returns (text, denoted dict)."""
    def s_(txt):
        return q + txt.replace("\\", "\\\\").replace(q, "\\" + q) + q
    den = {}
    parts = []
    nl = "\n        " if style % 2 else " "
    order = ("rewards", "players", "transition_list", "final_states")
    order = order[style % 4:] + order[:style % 4]          # the four fields in any (rotated) order
    for key in order:
        if key not in g:
            continue
        val = g[key]
        if key == "rewards" and isinstance(val, list):
            items = []
            dv = []
            for k, x in enumerate(val):
                if isinstance(x, float) and style == 2 and x == 5 / 3:
                    items.append("5/3")
                    dv.append(5 / 3)
                else:
                    t, d = render_number(x, (style + k) % 4) if isinstance(x, (int, float)) else (repr(x), x)
                    items.append(t)
                    dv.append(d)
            txt = "[" + ", ".join(items) + ("," if style == 3 and items else "") + "]"
            den[key] = dv
        elif key == "players" and isinstance(val, list):
            txt = "[" + ("," + nl).join(s_(p) if isinstance(p, str) else repr(p) for p in val) + "]"
            den[key] = list(val)
        elif key == "transition_list" and isinstance(val, list):
            rows = []
            dv = []
            for lst in val:
                if isinstance(lst, list) and all(isinstance(t, tuple) and len(t) == 2 for t in lst):
                    cells = []
                    dl = []
                    for k, (a, b) in enumerate(lst):
                        if isinstance(a, str):
                            ta, da = s_(a), a
                        elif isinstance(a, (int, float)) and not isinstance(a, bool):
                            ta, da = render_number(a, (style + k) % 4)
                        else:
                            ta, da = repr(a), a
                        cells.append(f"({ta}, {b!r})")
                        dl.append((da, b))
                    rows.append("[" + ", ".join(cells) + ("," if style == 1 and cells else "") + "]")
                    dv.append(dl)
                else:
                    rows.append(repr(lst))
                    dv.append(copy.deepcopy(lst))
            txt = "[" + nl + ("," + nl).join(rows) + nl + "]"
            den[key] = dv
        else:
            txt = repr(val)
            den[key] = copy.deepcopy(val)
        parts.append(f"{s_(key)}: {txt}")
    sep = ",\n    "
    return "{\n    " + sep.join(parts) + ("," if style == 3 else "") + "\n  }", den


def render_file(names, gamelist, styles, q, comments):
    den = {}
    chunks = []
    for name, g, style in zip(names, gamelist, styles):
        txt, d = render_game(g, style, q)
        chunks.append(f"  {q}{name}{q}: {txt}")
        den[name] = d
    head = "# generated input file\n# second comment line\n" if comments else ""
    mid = ",\n  # a comment between games\n" if comments else ",\n"
    return head + "{\n" + mid.join(chunks) + ("," if comments else "") + "\n}\n", den


# ----------------------------------------------------------------------------- generators
@st.composite
def one_game(draw):
    kind = draw(st.sampled_from(("stopping", "stopping", "stopping", "malformed")))
    if kind == "malformed":
        base = draw(games.any_games(min_states=2, max_states=4))
        # keep faults whose value has a literal spelling (repr of inf is not a literal)
        fl = [f for f in faults(base) if "inf" not in f[2] and "nan" not in f[2]]
        k = draw(st.integers(0, len(fl) - 1))
        return dict(kind="malformed", game=fl[k][4])
    g = draw(games.stopping_games(min_inner=1, max_inner=6, max_sinks=2, rewards=(0, 1, 2, 5 / 3, 0.5, 1000, 5), dup_names=True))
    return dict(kind="stopping", game=g)


@st.composite
def pipeline_cases(draw):
    k = draw(st.integers(1, 4))
    return dict(kind="pipeline", fname=draw(IDENT), names=draw(st.lists(IDENT, min_size=k, max_size=k, unique=True)),
                games=[draw(one_game()) for _ in range(k)], styles=[draw(st.integers(0, 3)) for _ in range(k)],
                quote=draw(st.sampled_from(("'", '"'))), comments=draw(st.booleans()),
                subprocess=draw(st.integers(0, 39)) == 7,
                # the -f argument is a symbolic link (another name in inputs/) to the real file
                symlink=draw(st.one_of(st.none(), st.none(), IDENT)),
                # an earlier run of the same file name left a report behind: same first game, later games different
                stale_report=draw(st.sampled_from((None, None, "drop_last", "change_last_rewards", "reverse_rest"))))


FLOATS = st.one_of(st.floats(allow_nan=False, allow_infinity=False, width=64), st.sampled_from((float("inf"), 0.1, 1 / 3, 1e-300, -0.0)),
                   st.integers(-5, 10 ** 6))
STRAT = st.one_of(st.none(), st.lists(st.one_of(st.none(), st.lists(st.sampled_from(("a", "a", "Left", " ", "it's", 'q"')), max_size=3)),
                                      max_size=6))
VEC = st.one_of(st.none(), st.just(0), st.lists(FLOATS, max_size=40))
MSG = st.one_of(st.sampled_from(("Game solved", "Game not solved",
                                 "Error while solving the game: The game has no solution. The initial state has a reach probability of 0.",
                                 "Error while solving the game: list.remove(x): x not in list", "", " : ", "a=b; [c] {d} #e")),
                st.text(alphabet="abc :;,.[](){}'\"#=-", max_size=30))


@st.composite
def related_strategies(draw):
    """(reach, final) pairs that are equal, or differ only slightly (a duplicate dropped, two actions
    swapped, one action removed, None against []), besides unrelated ones."""
    reach = draw(STRAT)
    how = draw(st.sampled_from(("same", "dedupe", "swap", "drop", "independent", "independent")))
    if how == "independent" or reach is None:
        return reach, draw(STRAT)
    final = [list(x) if isinstance(x, list) else x for x in reach]
    lists = [i for i, x in enumerate(final) if isinstance(x, list) and x]
    if how == "same" or not lists:
        return reach, final
    i = draw(st.sampled_from(lists))
    if how == "dedupe":
        final[i] = list(dict.fromkeys(final[i]))
    elif how == "swap":
        final[i] = final[i][::-1]
    else:
        final[i] = final[i][:-1]
    return reach, final


@st.composite
def synthetic_cases(draw):
    k = draw(st.integers(1, 4))
    names = draw(st.lists(IDENT, min_size=k, max_size=k, unique=True))
    res = {}
    for nm in names:
        reach, final = draw(related_strategies())
        res[nm] = dict(n_states=draw(st.integers(0, 5000)), n_transitions=draw(st.integers(0, 10 ** 5)),
                       n_iterations_reach=draw(st.integers(0, 10 ** 4)), n_iterations_rew=draw(st.integers(0, 10 ** 4)),
                       reachability_strategies=reach, final_strategies=final,
                       total_time=draw(st.floats(0, 100)), msg=draw(MSG), rewards=draw(VEC), rew_min_reach=draw(VEC),
                       probabilities=draw(VEC), prob_min_rew=draw(VEC))
    path = draw(st.sampled_from(("inputs/{}.py", "{}.py", "inputs/sub/{}.py", "./inputs/{}.py", "inputs/v1.2/{}.py",
                                  "/abs/path.d/inputs/{}.py", "inputs/../inputs/{}.py"))).format(draw(IDENT))
    return dict(kind="synthetic", results=res, path=path)


def large_synthetic():
    """Enumerated: long vectors, many games, long names/messages (sizes around 80, 1000, 4096, 10^4)."""
    for n in (79, 80, 81, 999, 1000, 1001, 4097, 10000):
        vec = [((i * 7919) % 1000) / 7 for i in range(n)]
        strat = [None if i % 3 == 0 else ["Left", "Right"][: 1 + i % 2] for i in range(n)]
        e = dict(n_states=n, n_transitions=3 * n, n_iterations_reach=n, n_iterations_rew=n + 1,
                 reachability_strategies=strat, final_strategies=[x if i % 5 else None for i, x in enumerate(strat)],
                 total_time=1.5, msg="Game solved", rewards=vec, rew_min_reach=list(reversed(vec)),
                 probabilities=[min(1.0, x / 100) for x in vec], prob_min_rew=[0.0] * n)
        yield dict(kind="synthetic", results={f"big_{n}": e, f"big_{n}_no_prune": dict(e, msg="x" * n)},
                   path=f"inputs/{'n' * min(n, 100)}.py")
    many = {f"g{i}": dict(n_states=i, n_transitions=i, n_iterations_reach=0, n_iterations_rew=0,
                          reachability_strategies=None, final_strategies=None, total_time=0.0, msg="Game not solved",
                          rewards=None, rew_min_reach=0, probabilities=None, prob_min_rew=0) for i in range(130)}
    yield dict(kind="synthetic", results=many, path="inputs/many.py")


def phases(tier):
    return [Phase("large-reports", enum=large_synthetic, note="long vectors, many entries, long names and messages"),
            Phase("pipeline", strategy=pipeline_cases, examples=(350, 15000)),
            Phase("synthetic-results", strategy=synthetic_cases, examples=(500, 20000))]


def sample_view(case):
    if case["kind"] == "synthetic" and len(str(case)) > 4000:
        return dict(kind="synthetic", path=case["path"], entries=list(case["results"])[:4],
                    vector_length=len(next(iter(case["results"].values())).get("rewards") or []))
    if case["kind"] == "pipeline":
        return dict(kind="pipeline", fname=case["fname"], names=case["names"], styles=case["styles"],
                    kinds=[g["kind"] for g in case["games"]], first_game=case["games"][0]["game"])
    return case


# ----------------------------------------------------------------------------- comparison
def same(a, b):
    return structure(a) == structure(b)


def compare_report(v, blocks, results, label):
    if len(blocks) != len(results):
        v.fail("block-count", f"{label}: {len(blocks)} blocks for {len(results)} entries")
        return
    for blk, (name, e) in zip(blocks, results.items()):
        if blk["name"] != name:
            v.fail("block-order-or-name", f"{label}: block named {blk['name']!r}, expected {name!r}")
            return
        if blk["msg"] != str(e["msg"]):
            v.fail("field-differs", f"{label}: {name}: Message reads {blk['msg']!r}, value was {e['msg']!r}", sig="msg")
        for _, key in LABELS[2:]:
            if key == "are_equal":
                want = e["reachability_strategies"] == e["final_strategies"]
            elif key == "total_time":
                want = e["total_time"]
            else:
                want = e[key]
            if not same(blk[key], want):
                v.fail("field-differs", f"{label}: {name}: line {key!r} reads back as {str(blk[key])[:120]!r}, the "
                                        f"value was {str(want)[:120]!r}", sig=key)


def check_pipeline(case, v):
    r = repo()
    cr = r.conditionalrewards
    names, glist = case["names"], case["games"]
    text, denoted = render_file(names, [g["game"] for g in glist], case["styles"], case["quote"], case["comments"])
    facts = []
    for g in glist:
        if g["kind"] == "stopping":
            f = GameFacts(g["game"])
            try:
                if f.slow:
                    v.inconclusive = "T>300"
                    return
            except OracleError as e:
                v.inconclusive = f"oracle: {e}"
                return
            facts.append(f)
    d = boards.clean_scratch()
    path = os.path.join(d, "inputs", case["fname"] + ".py")
    how = case.get("stale_report")
    if how and len(names) >= 2 and not case.get("symlink"):
        # history: the same input file name was run before with other content after its first game, and its
        # report is still in outputs/ - the new report must nevertheless state what is computed now
        import copy as _copy
        old_names, old_games = list(names), [_copy.deepcopy(g["game"]) for g in glist]
        if how == "drop_last":
            old_names, old_games = old_names[:-1], old_games[:-1]
        elif how == "reverse_rest":
            old_names = old_names[:1] + old_names[1:][::-1]
            old_games = old_games[:1] + old_games[1:][::-1]
        else:
            last = old_games[-1]
            if isinstance(last.get("rewards"), list):
                last["rewards"] = [x + 1 if isinstance(x, (int, float)) and not isinstance(x, bool) and x > 0 else x
                                   for x in last["rewards"]]
        old_text, _ = render_file(old_names, old_games, case["styles"][:len(old_names)], case["quote"], case["comments"])
        with open(path, "w") as f:
            f.write(old_text)
        cwd0, argv0 = os.getcwd(), sys.argv
        os.chdir(d)
        sys.argv = ["conditionalrewards.py", "-f", f"inputs/{case['fname']}.py", "-s"]
        try:
            with budgeted_many(facts, extra_modules=(cr,)):
                cr.main()
            v.cls("older_report_present")
        except BaseException as e:
            if isinstance(e, KeyboardInterrupt):
                raise
            for fn in os.listdir(os.path.join(d, "outputs")):
                os.remove(os.path.join(d, "outputs", fn))
        finally:
            sys.argv = argv0
            os.chdir(cwd0)
    with open(path, "w") as f:
        f.write(text)
    # reader
    try:
        loaded = cr.read_dict_from_file(path)
    except Exception as e:
        v.fail("reader-raises", f"read_dict_from_file failed on literal text: {type(e).__name__}: {e}\n{text[:300]}",
               sig=type(e).__name__)
        return
    if not isinstance(loaded, dict) or list(loaded.keys()) != names or not same(
            [loaded[n] for n in names], [denoted[n] for n in names]) or \
            any(list(loaded[n].keys()) != list(denoted[n].keys()) for n in names if isinstance(loaded.get(n), dict)):
        v.fail("reader-differs-from-denotation", f"file text denotes {str(denoted)[:200]} but was read as "
                                                 f"{str(loaded)[:200]}")
        return
    # pipeline through main()
    captured = {}
    orig = cr.run_games

    def spy(games_dict):
        res = orig(games_dict)
        captured["res"] = res
        return res
    cwd, argv = os.getcwd(), sys.argv
    os.chdir(d)
    used = case["fname"]
    link = case.get("symlink")
    if link and link != case["fname"]:
        os.symlink(case["fname"] + ".py", os.path.join("inputs", link + ".py"))
        used = link
        v.cls("input_is_a_symlink")
    sys.argv = ["conditionalrewards.py", "-f", f"inputs/{used}.py", "-s"]
    cr.run_games = spy
    try:
        try:
            with budgeted_many(facts, extra_modules=(cr,)):
                cr.main()
        except BudgetExceeded:
            v.inconclusive = "sweep budget exceeded (reported by C06)"
            return
        except SkipSolve:
            v.inconclusive = "conditioned game T_c > limit"
            return
        except SystemExit as e:
            v.fail("main-exits", f"main() exited with {e.code}")
            return
        except Exception as e:
            v.fail("main-raises", f"main(): {type(e).__name__}: {str(e)[:150]}", sig=type(e).__name__)
            return
    finally:
        cr.run_games = orig
        sys.argv = argv
        os.chdir(cwd)
    outs = sorted(os.listdir(os.path.join(d, "outputs")))
    if outs != [used + ".txt"]:
        v.fail("report-name", f"input inputs/{used}.py" + (f" (a symbolic link to {case['fname']}.py)" if used != case["fname"] else "")
               + f" produced outputs {outs}")
        return
    with open(os.path.join(d, "outputs", outs[0])) as f:
        rep = f.read()
    res = captured.get("res")
    if res is None:
        v.fail("main-did-not-run-games", "run_games was not called")
        return
    try:
        blocks = parse_report(rep)
    except ParseError as e:
        v.fail("report-unparseable", f"{e}")
        return
    compare_report(v, blocks, res, "pipeline")
    want_names = [x for n in names for x in (n, n + "_no_prune")]
    if [b["name"] for b in blocks] != want_names:
        v.fail("block-order-or-name", f"blocks {[b['name'] for b in blocks]} expected {want_names}")
    if len(names) >= 2 or any(e["rewards"] is None or e["final_strategies"] in (None, []) for e in res.values()):
        v.nontrivial = True
    if any(e["rewards"] is None for e in res.values()):
        v.cls("has_failed_entry")
    if len(names) >= 2:
        v.cls("games>=2")
    if case.get("subprocess"):
        v.cls("subprocess")
        os.remove(os.path.join(d, "outputs", outs[0]))
        env = dict(os.environ, PYTHONPATH=r.path, PYTHONDONTWRITEBYTECODE="1")
        p = subprocess.run([sys.executable, os.path.join(r.path, "conditionalrewards.py"), "-f",
                            f"inputs/{used}.py", "-s"], cwd=d, env=env, capture_output=True, text=True,
                           timeout=300)
        if p.returncode != 0:
            v.fail("cli-fails", f"python conditionalrewards.py -f ... -s exited {p.returncode}: {p.stderr[-200:]}")
            return
        with open(os.path.join(d, "outputs", outs[0])) as f:
            rep2 = f.read()
        strip = lambda t: "\n".join(l for l in t.split("\n") if not l.startswith("Total time"))
        if strip(rep2) != strip(rep):
            v.fail("cli-report-differs", "the report written by the real command line differs from the in-process one")


def check_synthetic(case, v):
    r = repo()
    d = boards.clean_scratch()
    cwd = os.getcwd()
    os.chdir(d)
    try:
        try:
            r.conditionalrewards.save_results_to_file(copy.deepcopy(case["results"]), case["path"])
        except Exception as e:
            v.fail("writer-raises", f"save_results_to_file: {type(e).__name__}: {str(e)[:150]}", sig=type(e).__name__)
            return
        outs = sorted(os.listdir("outputs"))
        stem = case["path"].split("/")[-1][:-3]
        if outs != [stem + ".txt"]:
            v.fail("report-name", f"input path {case['path']!r} produced outputs {outs}")
            return
        with open(os.path.join("outputs", outs[0]), encoding="utf-8") as f:
            rep = f.read()
    finally:
        os.chdir(cwd)
    try:
        blocks = parse_report(rep)
    except ParseError as e:
        v.fail("report-unparseable", f"{e}")
        return
    compare_report(v, blocks, case["results"], "synthetic")
    res = case["results"]
    v.nontrivial = len(res) >= 2 or any(e["rewards"] is None or e["final_strategies"] in (None, []) for e in res.values())
    if any(e["rewards"] is None for e in res.values()):
        v.cls("has_None_vector")
    if any(e["final_strategies"] == [] or e["reachability_strategies"] == [] for e in res.values()):
        v.cls("has_empty_strategy_list")
    if len(res) >= 2:
        v.cls("games>=2")


def check_case(case):
    v = Verdict()
    v.cls(case["kind"])
    if case["kind"] == "pipeline":
        check_pipeline(case, v)
    else:
        check_synthetic(case, v)
    return v
