"""C08 - generated games encode the Roborta board rules faithfully.

REF: abstract rule model over named positions (harness/roborta_model.py) +
coarsest probabilistic bisimulation from the two initial states.  Exhaustive
core: every board with <= 4 tiles (all shapes, arrow assignments and loose-tile
layouts); sampled boards beyond.
"""
import itertools
import os

from hypothesis import strategies as st

from harness import boards
from harness.load import repo
from harness.roborta_model import bisimilar, from_game, model
from harness.runner import Phase, Verdict

ID = "C08"
LEVEL = "exploration"
TECHNIQUE = ("exhaustive enumeration of all boards with <= 4 tiles + property-based testing (Hypothesis) on larger "
             "boards, each emitted game checked for probabilistic bisimilarity with an abstract rule model")
LEVEL_TEXT = ("Exhaustive core: all 13 448 boards with at most 4 tiles (8 shapes x 4 arrows x loose/firm per tile), three "
              "break-probability triples in rotation, all three variants (thorough tier; the quick tier enumerates the "
              "1 160 boards with <= 3 tiles). Beyond it: sampled boards to 6x6 with arbitrary rewards and break "
              "probabilities, boards from the random generator with and without force-down, and the manual entry point. "
              "Each emitted game is compared with an independently written abstract model by partition-refinement "
              "bisimulation from the initial states. Exploration with an exhaustive finite core."
              " Added while validating sensitivity: generator boards of 9 to 400 tiles around typical size thresholds (group offsets beyond the interpreter's small-integer cache)."
              ' Later rounds: the command-line entry point, two thirds of it after an earlier run in the same directory whose break probabilities differ by less than a percent; hand-made boards with tuple rows (all loose patterns of the small shapes), fractional rewards and rewards of more than six significant digits; one 6560-tile board (65 602 states) in the thorough tier.')
LEVEL_NOTE = ("Trusted: the ~60-line rule model and the partition refinement in harness/roborta_model.py; the reading of "
              "'robot failure leaves the robot on its tile' as re-entering the tile (a loose tile may break again), which "
              "is what the code does on every multi-column board where the property is not in doubt; chance "
              "distributions compared after rounding to 1e-9.")
RULE = ("case = board (arrows, rewards, loose flags, three break probabilities) [+ entry point]; all three variants are "
        "checked per case. Every board is non-trivial (each yields three bisimulation problems); classes: one-column, "
        "one-row, wrap used, loose tile present, down-only tile present. Distinct = different board / probabilities.")
ASSUMPTIONS = ["bisimilarity is checked from the initial state only (unreachable emitted states are ignored)",
               "the game's turn granularity (light, robot, chance) is taken from the code, the rules from the statement"]
TRIPLES = ((0.1, 0.2, 0.3), (0.5, 0.25, 0.125), (0.9, 0.37, 0.01))
SHAPES = ((1, 1), (1, 2), (2, 1), (1, 3), (3, 1), (1, 4), (4, 1), (2, 2))


def core(max_tiles):
    def gen():
        idx = 0
        for (L, W) in SHAPES:
            t = L * W
            if t > max_tiles:
                continue
            for arrows in itertools.product((0, 1, 2, 3), repeat=t):
                for loose in itertools.product((0, 1), repeat=t):
                    tb, rb, lb = TRIPLES[idx % 3]
                    idx += 1
                    yield dict(moves=[list(arrows[i * W:(i + 1) * W]) for i in range(L)],
                               rewards=[[1 + i * W + j for j in range(W)] for i in range(L)],
                               loose=[list(loose[i * W:(i + 1) * W]) for i in range(L)],
                               tb=tb, rb=rb, lb=lb)
    return gen


def hand_made_tuple_rows():
    """The manual entry point with rows written as tuples: every loose-tile pattern of the small shapes (a
    row of two 0/1 flags looks like a coordinate pair), two arrow patterns each."""
    idx = 0
    for (L, W) in ((1, 1), (1, 2), (2, 1), (2, 2), (3, 2), (2, 3), (1, 3)):
        t = L * W
        for loose in itertools.product((0, 1), repeat=t):
            for arrows in ([1] * t, [(i * 7 + 2) % 4 for i in range(t)]):
                tb, rb, lb = TRIPLES[idx % 3]
                idx += 1
                yield dict(moves=[list(arrows[i * W:(i + 1) * W]) for i in range(L)],
                           rewards=[[1 + i * W + j for j in range(W)] for i in range(L)],
                           loose=[list(loose[i * W:(i + 1) * W]) for i in range(L)],
                           tb=tb, rb=rb, lb=lb, entry="manual", rows="tuple")


# accepted break probabilities whose repr has a three-digit exponent, down to the smallest double (kept out of
# harness/boards.PROBS: with p = 5e-324 the written rows (p, 1 - p = 1.0) sum to more than 1 as rationals, which the
# exact solvers of other properties cannot take; the rule model here only compares labels)
TINY_PROBS = (1e-100, 1e-120, 3e-150, 1.5e-300, 5e-324)


@st.composite
def sampled(draw, max_side=6):
    b = draw(boards.boards(max_len=max_side, max_wid=max_side))
    if draw(st.integers(0, 5)) == 0:
        b = dict(b)
        b[draw(st.sampled_from(("tb", "rb", "lb")))] = draw(st.sampled_from(TINY_PROBS))
    if draw(st.integers(0, 3)) == 0:
        b = dict(b, entry="manual")
        if draw(st.booleans()):
            # hand-made boards may carry fractional tile rewards (the random generator only emits integers)
            b["rewards"] = [[draw(st.sampled_from((0, 1, 2, 0.5, 1.25, 0.75, 2.5, 3))) for _ in row] for row in b["rewards"]]
        elif draw(st.booleans()):
            # rewards with more than six significant digits
            b["rewards"] = [[draw(st.sampled_from((0, 1, 1000001, 123456789, 0.1234567, 2 ** 40 + 1, 1234567.25)))
                             for _ in row] for row in b["rewards"]]
        # the rows of a hand-made board may be written as tuples just as well as lists
        b["rows"] = draw(st.sampled_from(("list", "list", "tuple")))
        if draw(st.booleans()):
            # another hand-made board was written in the same directory before: same shape, largest reward,
            # probabilities and down-only flag - hence the same file name - but other loose tiles and arrows
            b["prior"] = True
    return b


@st.composite
def from_generator(draw):
    seed = draw(st.integers(0, 10 ** 6))
    length = draw(st.integers(1, 7))
    width = draw(st.integers(1, 7))
    fd = draw(st.booleans())
    p = draw(st.sampled_from((0.1, 0.3, 0.5, 0.9)))
    g = dict(gen=[seed, length, width, p, draw(st.sampled_from((1, 6, 20, 10 ** 7))), fd],
             tb=draw(boards.PROBS), rb=draw(boards.PROBS), lb=draw(boards.PROBS))
    if draw(st.integers(0, 5)) == 0:
        g[draw(st.sampled_from(("tb", "rb", "lb")))] = draw(st.sampled_from(TINY_PROBS))
    return g


@st.composite
def through_cli(draw):
    """The command-line entry point, optionally after an earlier run in the same directory whose break
    probabilities differ from this one's by less than a percent (same file name, different game)."""
    g = draw(from_generator())
    g["gen"][3] = draw(st.sampled_from((0.1, 0.3, 0.5, 0.9)))
    g["entry"] = "cli"
    if draw(st.integers(0, 2)) > 0:
        which = draw(st.sampled_from(("tb", "rb", "lb", "all")))
        delta = draw(st.sampled_from((0.004, 0.0005, -0.004, 0.0049)))
        prior = {k: g[k] for k in ("tb", "rb", "lb")}
        for k in prior:
            if which in (k, "all"):
                prior[k] = min(0.9995, max(0.0005, round(g[k] + delta, 6)))
        if prior != {k: g[k] for k in ("tb", "rb", "lb")}:
            g["prior"] = prior
    return g


def wide_tall(tier="quick"):
    """Shapes around typical tuning knobs (8, 12, 16, 32, 64 per row / column), from the random generator."""
    shapes = [(1, 9), (9, 1), (1, 13), (13, 1), (2, 17), (17, 2), (1, 33), (33, 1), (1, 65), (65, 1), (9, 9), (3, 12),
              (12, 3), (11, 7),
              # more than 86 / 128 / 256 tiles: group offsets leave the small-integer range of the interpreter
              (9, 10), (10, 10), (12, 8), (1, 100), (100, 1), (2, 130), (16, 16), (3, 90), (20, 20)]
    if tier != "quick":
        shapes.append((82, 80))        # 6560 tiles: game C has more than 65 536 states (35 s per board)
    for k, (length, width) in enumerate(shapes):
        for fd in (False, True):
            yield dict(gen=[100 + k, length, width, 0.3, 6, fd], tb=0.1, rb=0.2, lb=0.3)


def phases(tier):
    if tier == "quick":
        return [Phase("boards<=3-tiles", enum=core(3), exhaustive=True, note="all boards with at most 3 tiles"),
                Phase("hand-made-boards-with-tuple-rows", enum=hand_made_tuple_rows),
                Phase("wide-and-tall-boards", enum=lambda: wide_tall("quick")),
                Phase("sampled-boards", strategy=lambda: sampled(5), examples=(260, 0)),
                Phase("generator-boards", strategy=from_generator, examples=(60, 0)),
                Phase("command-line-runs", strategy=through_cli, examples=(80, 0))]
    return [Phase("boards<=4-tiles", enum=core(4), exhaustive=True, note="all 13 448 boards with at most 4 tiles"),
            Phase("hand-made-boards-with-tuple-rows", enum=hand_made_tuple_rows),
            Phase("wide-and-tall-boards", enum=lambda: wide_tall("thorough")),
            Phase("sampled-boards", strategy=lambda: sampled(6), examples=(0, 5000)),
            Phase("generator-boards", strategy=from_generator, examples=(0, 1500)),
            Phase("command-line-runs", strategy=through_cli, examples=(0, 1500))]


def emitted_by_cli(board):
    """roberta_generator.main() in a scratch directory; with board['prior'] an earlier run (other break
    probabilities) happens first in the same directory.  The file read is the one the last run names."""
    r = repo()
    seed, length, width, p, maxr, fd = board["gen"]

    def args(tb, rb, lb):
        return boards.cli_args(seed=seed, width=width, length=length, rb=rb, lb=lb, tb=tb, lt=p, max_reward=maxr,
                               force_down=fd)
    before = {}
    if board.get("prior"):
        pr = board["prior"]
        kind, payload, before = boards.run_generator_cli(args(pr["tb"], pr["rb"], pr["lb"]), clean=True)
        if kind != "ok":
            raise RuntimeError(f"earlier run failed: {kind} {payload!r}")
    kind, payload, files = boards.run_generator_cli(args(board["tb"], board["rb"], board["lb"]), clean=not before)
    if kind != "ok":
        raise RuntimeError(f"main() ended with {kind} {payload!r}")
    if len(files) == 1:
        name = next(iter(files))
    else:
        fresh = [n for n in files if files[n] != before.get(n)]
        if len(fresh) != 1:
            raise RuntimeError(f"cannot tell which of {sorted(files)} the last run wrote")
        name = fresh[0]
    return r.conditionalrewards.read_dict_from_file(os.path.join(boards.scratch_dir(), "inputs", name))


def emitted_games(board):
    r = repo()
    if board.get("entry") == "cli":
        return emitted_by_cli(board)
    if board.get("entry") != "manual":
        return boards.games_from_board(board)
    d = boards.clean_scratch()
    cwd = os.getcwd()
    os.chdir(d)
    try:
        row = tuple if board.get("rows") == "tuple" else list
        before = {}
        if board.get("prior"):
            pm = [list(reversed(x)) for x in board["moves"]]
            pl = [[1 - y for y in x] for x in board["loose"]]
            pr = [list(reversed(x)) for x in board["rewards"]]
            if (pm, pl, pr) != ([list(x) for x in board["moves"]], [list(x) for x in board["loose"]],
                                [list(x) for x in board["rewards"]]):
                r.stochastic_game_from_roborta_board.create_sg_from_board(pm, pr, pl, board["rb"], board["lb"], board["tb"])
                for name in os.listdir("inputs"):
                    with open(os.path.join("inputs", name), "rb") as f:
                        before[name] = f.read()
        r.stochastic_game_from_roborta_board.create_sg_from_board(
            [row(x) for x in board["moves"]], [row(x) for x in board["rewards"]], [row(x) for x in board["loose"]],
            board["rb"], board["lb"], board["tb"])
        files = os.listdir("inputs")
        if len(files) != 1:
            fresh = []
            for name in files:
                with open(os.path.join("inputs", name), "rb") as f:
                    if f.read() != before.get(name):
                        fresh.append(name)
            if len(fresh) != 1:
                raise RuntimeError(f"manual entry point wrote {files}")
            files = fresh
        return r.conditionalrewards.read_dict_from_file(os.path.join("inputs", files[0]))
    finally:
        os.chdir(cwd)


def check_case(board):
    v = Verdict()
    if "gen" in board and "moves" not in board:
        seed, length, width, p, maxr, fd = board["gen"]
        v.key = board
        extra = {k: board[k] for k in ("entry", "prior", "gen") if k in board}
        board = dict(boards.random_board(seed, length, width, p, maxr, fd, board["tb"], board["rb"], board["lb"]))
        v.cls("from_random_generator")
        if extra.get("entry") == "cli":
            board.update(extra)
            v.cls("command_line_entry_point")
            if "prior" in extra:
                v.cls("after_an_earlier_run_differing_below_a_percent")
    moves = board["moves"]
    L, W = len(moves), len(moves[0])
    v.nontrivial = True
    v.cls(f"tiles<={4 if L * W <= 4 else 9 if L * W <= 9 else 36 if L * W <= 36 else 400 if L * W <= 400 else 10000}")
    if W == 1:
        v.cls("one_column")
    if L == 1:
        v.cls("one_row")
    if any(m in (0, 1) for m in (row[0] for row in moves)) or any(m in (1, 2) for m in (row[-1] for row in moves)):
        v.cls("wrap_used")
    if any(any(row) for row in board["loose"]):
        v.cls("loose_present")
    if any(m == 3 for row in moves for m in row):
        v.cls("down_only_present")
    if board.get("entry") == "manual":
        v.cls("manual_entry_point")
        if board.get("rows") == "tuple":
            v.cls("rows_written_as_tuples")
        if board.get("prior"):
            v.cls("after_another_hand_made_board_of_the_same_name")
    if any(len(repr(float(x)).replace(".", "").replace("-", "").strip("0")) > 6 for row in board["rewards"] for x in row):
        v.cls("reward_with_more_than_6_significant_digits")
    try:
        gms = emitted_games(board)
    except Exception as e:
        v.fail("generator-raises", f"{type(e).__name__}: {str(e)[:200]}", sig=type(e).__name__)
        return v
    for variant in "abc":
        key = "game_" + variant
        if not isinstance(gms, dict) or key not in gms:
            v.fail("game-missing", f"{key} not in the emitted file (keys {list(gms)[:5]})", sig=variant)
            continue
        try:
            E, ei = from_game(gms[key])
            M, mi = model(variant, board)
            ok, why = bisimilar(M, mi, E, ei)
        except Exception as e:
            v.fail("emitted-game-malformed", f"{key}: {type(e).__name__}: {str(e)[:200]}", sig=variant)
            continue
        if not ok:
            v.fail("not-bisimilar", f"{key} of board moves={moves} rewards={board['rewards']} loose={board['loose']} "
                                    f"(tb={board['tb']}, rb={board['rb']}, lb={board['lb']}): {why}", sig=variant)
    return v
