"""C14 - cross-objective diagnostics match the reported strategies.

REF, on the conditioned game rebuilt from the reported outputs:
 (a) fix both players to their (single-action) final strategies and evaluate the
     Markov chain exactly: 'probabilities under minimal reward' must equal the
     chain's probability of reaching a final state (1 from state 0 when pruning);
 (b) fix Player 1 to its final action, restrict Player 2 to its REPORTED
     reachability strategy set and minimise the expected total reward exactly:
     'rewards under minimal reachability' must equal that value.
Cases with a reward tie at a reachable player state are outside the statement
and counted as skipped.
"""
from hypothesis import strategies as st

from harness import exact, games
from harness.analysis import GameFacts, Solved, T_MAX, tol
from harness.exact import OracleError
from harness.games import P1, P2, PR
from harness.runner import Phase, Verdict

ID = "C14"
LEVEL = "exploration"
TECHNIQUE = ("property-based testing (Hypothesis) against exact Markov-chain / MDP evaluation under the reported "
             "strategies (Fractions)")
LEVEL_TEXT = ("Generated-input search over constructed stopping games with generic (tie-avoiding) rewards in both "
              "pruning modes; both diagnostic vectors are compared, for every state reachable from the initial state, "
              "with exact evaluations of the conditioned game under the strategies the solver itself reported. "
              "Exploration: infinite domain, exact oracle, eligibility (no reward ties, single-action strategies) "
              "decided by the oracle and the skipped share reported.")
LEVEL_NOTE = ("Trusted: harness/exact.py chain_reach / strategy_iteration with restricted action sets; tolerance "
              "threshold x (T_c+1) two-sided (the diagnostics are not monotone).")
RULE = ("case = (stopping game with generic rewards, pruning mode); eligible if every player state reachable from 0 in "
        "the conditioned game has a single final action and competing successor rewards separated by more than the "
        "tolerance. Non-trivial = eligible and some reachable state where a diagnostic differs from the main vector "
        "(prob_min_rew != probability or rew_min_reach != reward). Distinct = different (game, mode).")
ASSUMPTIONS = ["cases with reward ties at reachable player states are skipped (outside the statement)",
               "scope: states reachable from state 0 in the conditioned game"]
CLASS_FLOORS = {"eligible": 0.3, "objectives_disagree": 0.05}


@st.composite
def cases(draw, max_inner=9):
    g = draw(games.stopping_games(min_inner=2, max_inner=max_inner, rewards=games.GENERIC_REWARDS, max_sinks=2, inner_finals=True))
    return dict(game=g, prune=games.coin(draw))


@st.composite
def zero_reward_chains(draw):
    """No state pays anything (the reward objective is vacuous) and no player ever has a choice: the
    diagnostics are still defined - with pruning on the probability under the final strategies is 1 at the
    initial state although part of the probability mass is lost to dead states."""
    g = draw(games.stopping_games(min_inner=2, max_inner=8, rewards=(0, 0), owners=(PR, PR, PR, P1, P2), max_actions=1,
                                  max_sinks=2, zero_edges=True))
    return dict(game=g, prune=draw(st.sampled_from((True, True, False))))


@st.composite
def crossed(draw):
    """A root player state over 2-3 branches; each branch is a Player 2 (or Player 1) state choosing
    between rewarded lotteries, so that the reachability-optimal and the reward-optimal action of
    a branch differ and the branches differ in 'probability under minimal reward'."""
    nb = draw(st.integers(2, 3))
    root_owner = draw(st.sampled_from((P1, P1, P2)))
    players = [root_owner, PR, PR]
    rew = [draw(st.sampled_from(games.GENERIC_REWARDS)), 0, 0]
    tl = [None, [(1, 1)], [(1, 2)]]
    root = []
    common = draw(st.sampled_from((0.25, 0.5, 0.75)))
    for b in range(nb):
        owner = draw(st.sampled_from((P2, P2, P1)))
        bi = len(players)
        players.append(owner)
        rew.append(draw(st.sampled_from(games.GENERIC_REWARDS)))
        tl.append(None)
        acts = []
        na = draw(st.integers(2, 3))
        for k in range(na):
            if k == 0:
                q = common            # every branch has the same reach-optimal value
            elif owner == P2:
                q = draw(st.sampled_from([x for x in (0.25, 0.5, 0.75, 1.0) if x >= common]))
            else:
                q = draw(st.sampled_from([x for x in (0.0, 0.25, 0.5, 0.75) if x <= common]))
            li = len(players)
            players.append(PR)
            # lottery rewards include near-coincident large values (1e-6 absolute < gap < 1e-9 relative)
            rew.append(draw(st.sampled_from(games.GENERIC_REWARDS + (4097.0, 4097.000002, 2e9, 2e9 + 1, 1e20, 3e25, 10 ** 25))))
            if q == 1.0:
                tl.append([(1, 1)])
            elif q == 0.0:
                tl.append([(1, 2)])
            else:
                tl.append([(q, 1), (1 - q, 2)])
            acts.append((games.NAMES[k], li))
        if draw(st.integers(0, 2)) == 0:
            # two lotteries of this branch pay nearly the same large amount: more than 1e-6 apart in absolute
            # terms (so the reported strategy is a single action), less than 1e-9 apart in relative terms
            base, delta = draw(st.sampled_from(((4097.0, 2e-6), (2e9, 1.0), (1e6, 3e-4), (65536.0, 2.5e-5))))
            i, j = draw(st.permutations([acts[0][1], acts[1][1]]))
            rew[i], rew[j] = base, base + delta
        tl[bi] = list(draw(st.permutations(acts)))
        root.append((games.NAMES[b], bi))
    tl[0] = list(draw(st.permutations(root)))
    return dict(game=dict(rewards=rew, players=players, transition_list=tl, final_states=[1]),
                prune=games.coin(draw))


def half_millionth_cases():
    """Planted: a Player 2 state choosing between two lotteries whose winning chances differ by less than 1e-6
    and one of which is a 7-decimal value ending in 5 (0.3000005 ...): how exactly such a value is rounded to 6
    digits decides which actions count as reachability-minimal; the reported reachability strategy and the
    'rewards under minimal reachability' output must be based on the same set."""
    for p2 in (0.3000005, 0.1000005, 0.7000015, 0.5000025, 0.2500005, 0.9000035):
        for d in (-3e-7, 3e-7, -6e-7):
            for costs in ((10, 4), (4, 10)):
                for order in (0, 1):
                    p1 = p2 + d
                    acts = [("a", 3), ("b", 4)]
                    if order:
                        acts = acts[::-1]
                    g = dict(rewards=[0, 0, 0, costs[0], costs[1]], players=[P2, PR, PR, PR, PR],
                             transition_list=[acts, [(1, 1)], [(1, 2)], [(p1, 1), (1 - p1, 2)], [(p2, 1), (1 - p2, 2)]],
                             final_states=[1])
                    for prune in (True, False):
                        yield dict(game=g, prune=prune)


def late_flip_cases():
    """Planted: 'rewards under minimal reachability' is the one quantity that can FALL during the reward
    iteration.  A Player 1 state s chooses between a branch A whose (higher) value arrives late - a chain of L
    chance states numbered against the direction of travel - and a branch B that holds a Player 2 state whose
    reachability strategy is expensive; when s flips to A in the very last sweeps, the figure of s drops and the
    drop has to travel up through a Player 2 state u and the initial state w."""
    H = 0.5
    for L in (2, 3, 4, 6):
        for scale in (1, 3):
            # 0 w(P1) -> 1 u(P2): c -> cheap (reach 1), r -> 2 ; 2 s(P1): a -> 3 (A), b -> 4 (B)
            # 3 .. 3+L-1: chain of A (last one pays 10*scale, then a 1/2 lottery); B = 4+L-? built below
            players = [P1, P2, P1]
            rewards = [1, 1, 1]
            tl = [[("go", 1)], None, None]
            a0 = 3
            chain = list(range(a0, a0 + L))
            lot_a = a0 + L                      # 1/2 final, 1/2 dead
            b = lot_a + 1                       # Player 2 state of branch B
            bx, by = b + 1, b + 2               # x: pays 8 (reach 1); y: pays 20 (reach 1/2)
            cheap = b + 3
            final, dead = b + 4, b + 5
            for i, s_ in enumerate(chain):
                players.append(PR)
                rewards.append(10 * scale if i == L - 1 else 0)
                tl.append([(1, chain[i + 1] if i + 1 < L else lot_a)])
            players += [PR, P2, PR, PR, PR, PR, PR]
            rewards += [0, 0, 8 * scale, 20 * scale, 1, 0, 0]
            tl += [[(H, final), (H, dead)], [("x", bx), ("y", by)], [(1, final)], [(H, final), (H, dead)], [(1, final)],
                   [(1, final)], [(1, dead)]]
            tl[1] = [("c", cheap), ("r", 2)]
            tl[2] = [("a", a0), ("b", b)]
            g = dict(rewards=rewards, players=players, transition_list=tl, final_states=[final])
            for prune in (False, True):
                yield dict(game=g, prune=prune)


def slow_cases():
    for g in games.slow_choice_games():
        for prune in (True, False):
            yield dict(game=g, prune=prune, allow_slow=True)


def phases(tier):
    return [Phase("half-millionth-reach-values", enum=half_millionth_cases,
                  note="reach probabilities that sit on a 6-digit rounding boundary, siblings less than 1e-6 away"),
            Phase("late-flips", enum=late_flip_cases,
                  note="the minimal-reachability reward of a Player 1 state falls in the last sweeps and the fall has to travel upstream"),
            Phase("slow-rewarded-loops", enum=slow_cases, note="values that need 10^3..10^5 sweeps"),
            Phase("zero-reward-chains", strategy=zero_reward_chains, examples=(250, 8000),
                  note="no rewards and no choices at all: the diagnostics are still defined"),
            Phase("crossed-objectives", strategy=crossed, examples=(600, 20000)),
            Phase("stopping-games-generic-rewards", strategy=lambda: cases(9 if tier == "quick" else 12),
                  examples=(2400, 70000))]



def check_case(case):
    v = Verdict()
    game, prune = case["game"], case["prune"]
    v.cls("prune" if prune else "no_prune")
    facts = GameFacts(game, allow_slow=bool(case.get("allow_slow")))
    try:
        if facts.too_slow:
            v.inconclusive = "T>300"
            return v
    except OracleError as e:
        v.inconclusive = f"oracle: {e}"
        return v
    a = Solved(facts, prune)
    o = a.outcome
    if o.kind == "nosol":
        v.cls("no_solution")
        return v
    if o.kind in ("skipped", "budget"):
        v.inconclusive = "conditioned game T_c > limit" if o.kind == "skipped" else "sweep budget exceeded (reported by C06)"
        return v
    if o.kind != "ok":
        v.fail("solve-raises", "a well-formed stopping game is not solved: " + o.brief(), sig=f"{o.kind}@{o.where}")
        return v
    label = f"solve(prune={prune})"
    n = facts.n
    try:
        cg, scope, rstar, Tc = a.cgame, a.scope, a.rstar, a.Tc
    except OracleError as e:
        v.inconclusive = f"oracle: {e}"
        return v
    t = tol(1e-6, Tc, max(rstar))
    tp = tol(1e-6, Tc, 1)          # probabilities carry no reward-sized rounding slack
    # eligibility
    choice = {}
    allowed2 = {}
    for s in range(n):
        pl = game["players"][s]
        lst = cg["transition_list"][s]
        if pl == PR or not lst:
            continue
        acts = [a_ for a_, _ in lst]
        if s in scope:
            # the statement's own precondition: the REPORTED final strategy is a single action.  A single
            # reported action means its rounded value is strictly best, hence its unrounded value too, so
            # the successor the diagnostics follow is that action - however close the runner-up is.
            if not isinstance(a.final[s], list) or len(a.final[s]) != 1 or a.final[s][0] not in acts or \
                    acts.count(a.final[s][0]) != 1:
                v.cls("tie_skipped")
                return v
            vals = [rstar[t_] for _, t_ in lst]
            opt = max(vals) if pl == P1 else min(vals)
            if len(vals) >= 2 and sorted(abs(x - opt) for x in vals)[1] <= 2 * t + 1e-6:
                v.cls("near_tie_with_single_reported_action")
            choice[s] = acts.index(a.final[s][0])
        else:
            choice[s] = 0
        if pl == P2:
            idx = [i for i, a_ in enumerate(acts) if a_ in (a.reach_strat[s] or [])]
            allowed2[s] = idx or list(range(len(acts)))
    v.cls("eligible")
    # (a) chain under the final strategies
    g = exact.G(cg)
    chain = g.chain(choice)
    pchain = exact.chain_reach(chain, set(game["final_states"]))
    # (b) Player 1 fixed, Player 2 restricted to its reported reachability strategies, minimise reward
    allowed = {s: [choice[s]] for s in choice if game["players"][s] == P1}
    allowed.update({s: allowed2[s] for s in allowed2})
    try:
        rmin, _ = exact.strategy_iteration(cg, "total", "max", "min", allowed=allowed)
    except OracleError as e:
        v.inconclusive = f"oracle: {e}"
        return v
    disagree = False
    for s in sorted(scope):
        x, y = a.prob_min_rew[s], a.rew_min_reach[s]
        if abs(x - a.prob[s]) > 1e-9 or abs(y - a.rew[s]) > 1e-9:
            disagree = True
        if abs(x - float(pchain[s])) > tp:
            v.fail("prob-min-rew-differs", f"{label}: state {s} reports probability-under-minimal-reward {x!r}, exact "
                                           f"reach probability under the reported final strategies "
                                           f"{float(pchain[s])!r} ({pchain[s]}); final {a.final}, tol {tp:.3g}",
                   sig=game["players"][s])
            break
        if abs(y - float(rmin[s])) > t:
            v.fail("rew-min-reach-differs", f"{label}: state {s} reports reward-under-minimal-reachability {y!r}, exact "
                                            f"{float(rmin[s])!r} ({rmin[s]}); final {a.final}, reach {a.reach_strat}, "
                                            f"tol {t:.3g}", sig=game["players"][s])
            break
    if prune and abs(a.prob_min_rew[0] - 1) > tp:
        v.fail("prob-min-rew-not-1-at-initial", f"{label}: reports {a.prob_min_rew[0]!r} at the initial state")
    if disagree:
        v.cls("objectives_disagree")
    v.nontrivial = disagree
    return v
