"""C11 - every accepted parameter set yields a loadable, proper three-game file.

INV over the generator's output, through the command-line main() and the manual
entry point: exactly one file; the solver's reader loads exactly game_a, game_b,
game_c; validation passes; every state has a transition; probabilistic lists are
positive and sum to 1; the only final state is an absorbing winning state and
there is exactly one other absorbing state (the losing one), stated structurally;
then each game is solved or reported as having no solution by the batch driver.
"""
import math
import os

from hypothesis import strategies as st

from harness import boards, exact
from harness.analysis import sweep_bound
from harness.budget import BudgetExceeded, sweep_budget
from harness.games import P1, P2, PR
from harness.load import repo
from harness.runner import Phase, Verdict, active_known

ID = "C11"
LEVEL = "exploration"
TECHNIQUE = ("property-based testing (Hypothesis) of generator parameters and hand-made boards with structural validity "
             "invariants on the emitted file and a solved-or-no-solution outcome check under a sweep budget")
LEVEL_TEXT = ("Generated parameter sets (seed incl. 2^31 and 10^12, sizes 1-8 and a few tall/wide/large boards, max reward "
              "1..5000, the four probabilities across (0,1) incl. 5e-324 and 1-2^-53, force-down on/off) through main(), "
              "and arbitrary arrow/reward/loose matrices through the manual entry point; every emitted file is loaded with "
              "the solver's own reader and each of its three games is checked structurally and then run through the batch "
              "driver. Exploration: the parameter space is infinite; solving is bounded by a sweep budget and budget "
              "exhaustion is classified by an end-component analysis of the game actually iterated.")
LEVEL_NOTE = ("Trusted: structural predicates in props/c11.py; harness/exact.py end-component analysis (for known finding "
              "K2); run-time sweep budget. 'Winning'/'losing' states are identified structurally (absorbing, final / "
              "non-final, reward 0), not by index.")
RULE = ("case = CLI parameter set or hand-made board. Non-trivial = width or length 1, or >= 1 loose tile, or an extreme "
        "probability, or force-down. Distinct = different case.")
ASSUMPTIONS = ["solving is attempted only for boards with <= 64 tiles in the quick tier (<= 200 thorough); larger boards "
               "get the structural clauses only",
               "a solve that exhausts the sweep budget is a violation unless it matches known finding K2 (iterated game "
               "has a rewarded end component, i.e. a genuinely infinite tracked quantity)"]
TINY = 5e-324
ALMOST1 = 1 - 2 ** -53
K2 = "K2"
THOROUGH_SCALE = 2
PROB = st.one_of(st.sampled_from((0.1, 0.3, 0.5, 0.9, 1e-9, TINY, ALMOST1, 0.999)), st.floats(0.001, 0.999))


@st.composite
def cli_cases(draw, max_side=6):
    return dict(kind="cli", seed=draw(st.one_of(st.integers(0, 60), st.sampled_from((2 ** 31, 10 ** 12)))),
                width=draw(st.integers(1, max_side)), length=draw(st.integers(1, max_side)),
                rb=draw(PROB), lb=draw(PROB), tb=draw(PROB), lt=draw(PROB),
                max_reward=draw(st.sampled_from((1, 2, 6, 60, 1000, 1022, 1023, 5000))), force_down=draw(st.booleans()))


@st.composite
def manual_cases(draw):
    b = draw(boards.boards(max_len=4, max_wid=4))
    b["tb"], b["rb"], b["lb"] = draw(PROB), draw(PROB), draw(PROB)
    return dict(kind="manual", board=b)


def shaped(tier):
    def gen():
        specs = [(1, 40, 3, True), (2, 3, 120, False), (3, 1, 300, True), (4, 30, 1, False),
                 # sizes around typical tuning knobs (8, 10, 12, 16, 32, 64 tiles per row / column)
                 (5, 9, 1, False), (6, 11, 2, True), (7, 13, 1, False), (8, 17, 2, True), (9, 33, 1, False),
                 (10, 65, 1, True), (11, 1, 9, False), (12, 2, 11, True), (13, 1, 13, False), (14, 2, 17, False),
                 (15, 1, 33, True), (16, 1, 65, False), (17, 100, 1, False), (18, 1, 101, True)]
        if tier == "thorough":
            specs += [(47, 10, 40, False), (5, 3, 400, True), (41, 5, 10, True), (40, 5, 5, True),
                      (6, 80, 82, True)]       # 6560 tiles: more than 65 536 states in game C
        for seed, width, length, fd in specs:
            yield dict(kind="cli", seed=seed, width=width, length=length, rb=0.1, lb=0.1, tb=0.1, lt=0.3, max_reward=6,
                       force_down=fd)
    return gen


def real_cli():
    for seed, width, length, fd in ((7, 2, 3, False), (8, 3, 1, True), (9, 1, 2, False)):
        yield dict(kind="cli", seed=seed, width=width, length=length, rb=0.1, lb=0.2, tb=0.3, lt=0.4, max_reward=6,
                   force_down=fd, subprocess=True)


def longest_names():
    """Seeds with so many digits that the generated file name is 249-255 characters long (255 is the usual
    limit for one path component): accepted parameters, so the file must be written and load."""
    base = len("robot__w2_l2_r6_rb10_lb10_tb10_lt30.py")
    try:
        name_max = os.pathconf(os.path.join(boards.scratch_dir(), "inputs"), "PC_NAME_MAX")
    except (OSError, ValueError, AttributeError):
        name_max = 255
    name_max = min(int(name_max), 255)
    for total in (name_max - 6, name_max - 3, name_max - 2, name_max - 1, name_max):
        digits = total - base
        yield dict(kind="cli", seed=int("7" + "3" * (digits - 1)), width=2, length=2, rb=0.1, lb=0.1, tb=0.1, lt=0.3,
                   max_reward=6, force_down=False, long_name=total)


def odd_spellings():
    """The same accepted values written the way a shell script or a user may write them (surrounding blanks,
    a trailing carriage return from a CRLF script, a plus sign, leading zeros, exponent notation): the file
    must be byte-identical to the one the canonical spelling gives (and loadable)."""
    canon = ["--seed=7", "--width=2", "--length=3", "--prob_robot_break=0.1", "--prob_light_break=0.2",
             "--prob_tile_break=0.3", "--prob_loose_tile=0.4", "--max_reward=6"]
    variants = [
        ["--seed=7\r"], ["--seed", " 7"], ["--seed=+7"], ["--seed=007"], ["--seed=7\n"], ["--seed", "7 "],
        ["--width=2\r"], ["--width=02"], ["--length", "\t3"], ["--max_reward=6\r\n"], ["--max_reward=+6"],
        ["--prob_robot_break=1e-1"], ["--prob_robot_break=.1"], ["--prob_robot_break=0.10"], ["--prob_robot_break=0.1\r"],
        ["--prob_light_break", " 0.2"], ["--prob_light_break=+0.2"], ["--prob_tile_break=3e-1"], ["--prob_tile_break=0.3\n"],
        ["--prob_loose_tile=0.40"], ["--prob_loose_tile=4E-1"], ["-s", "7", "-w", "2", "-l", "3", "-p", "0.1", "-q", "0.2",
                                                                   "-r", "0.3", "-t", "0.4", "-m", "6"],
    ]
    for var in variants:
        if len(var) > 4:
            args = var
        else:
            key = var[0].split("=")[0]
            args = [a for a in canon if a.split("=")[0] != key] + var
        yield dict(kind="spelling", canon=canon, args=args)
        yield dict(kind="spelling", canon=canon + ["-f"], args=args + ["--force_down"])


def phases(tier):
    side = 6 if tier == "quick" else 8
    return [Phase("longest-file-names", enum=longest_names,
                  note="seeds whose file name is 249-255 characters long"),
            Phase("odd-argument-spellings", enum=odd_spellings,
                  note="same values, unusual but accepted spellings: output must equal the canonical run byte for byte"),
            Phase("real-command-line", enum=real_cli,
                  note="python roberta_generator.py ... as a subprocess; bytes compared with the in-process run"),Phase("tall-wide-boards", enum=shaped(tier), note="structural clauses on tall / wide / large boards"),
            Phase("cli-parameter-sets", strategy=lambda: cli_cases(side), examples=(80, 3000)),
            Phase("manual-entry-point", strategy=manual_cases, examples=(40, 1200))]


# ----------------------------------------------------------------------------- structural clauses
def structural(v, name, g):
    keys = list(g.keys()) if isinstance(g, dict) else None
    if keys is None or sorted(keys) != ["final_states", "players", "rewards", "transition_list"]:
        v.fail("game-keys", f"{name}: keys {keys}")
        return False
    r = repo()
    try:
        sg = r.tad.StochasticGame(**{k: g[k] for k in ("rewards", "players", "transition_list", "final_states")})
        sg.check_game()
        sg.init_states()
    except Exception as e:
        v.fail("validation-fails", f"{name}: {type(e).__name__}: {str(e)[:150]}", sig=type(e).__name__)
        return False
    n = len(g["players"])
    tl = g["transition_list"]
    for s in range(n):
        if not tl[s]:
            v.fail("state-without-transition", f"{name}: state {s}")
            return False
        if g["players"][s] == PR:
            ps = [p for p, _ in tl[s]]
            if any(isinstance(p, bool) or not isinstance(p, (int, float)) or not (p > 0) for p in ps):
                v.fail("probability-not-positive", f"{name}: state {s}: {tl[s]}")
                return False
            if abs(math.fsum(ps) - 1) > 1e-12:
                v.fail("probabilities-do-not-sum-to-1", f"{name}: state {s}: {tl[s]} sums to {math.fsum(ps)!r}")
                return False
    finals = list(g["final_states"])
    if len(set(finals)) != 1:
        v.fail("not-exactly-one-final", f"{name}: final states {finals}")
        return False
    win = finals[0]
    absorbing = [s for s in range(n) if all(t == s for _, t in tl[s])]
    if win not in absorbing or g["rewards"][win] != 0:
        v.fail("winning-state-not-absorbing", f"{name}: final state {win}: {tl[win]} reward {g['rewards'][win]}")
        return False
    others = [s for s in absorbing if s != win]
    if len(others) != 1 or g["rewards"][others[0]] != 0:
        v.fail("losing-state", f"{name}: absorbing states besides the winning state: {others}")
        return False
    return True


def rewarded_end_component(state_lists, players, rewards, restrict=None):
    g = dict(players=players, rewards=rewards, transition_list=state_lists, final_states=[])
    # value iteration updates every state, reachable from the initial state or not, so a rewarded
    # end component anywhere in the iterated game keeps the loop going
    for c in exact.end_components(g):
        if any(rewards[s] > 0 for s in c):
            return sorted(c)
    return None


def solve_outcomes(v, label, games, budget):
    """run_games on each of the three games under a sweep budget.  Budget exhaustion is classified
    from the trajectory of the tracked quantities (sampled once per sweep by the logging shim):
    increments that keep shrinking = slow convergence (inconclusive, counted); increments that do
    not shrink, on a game whose iterated conditioned game has a rewarded end component = genuine
    divergence (known finding K2); anything else = violation."""
    r = repo()
    known = active_known(ID)
    snap = {}
    for name in ("game_a", "game_b", "game_c"):
        g = games[name]
        n = len(g["players"])
        snap.clear()
        traj = []

        def on_reward_phase(state_list):
            snap["lists"] = [list(s.next_states) for s in state_list]
            snap["players"] = [s.player for s in state_list]
            snap["rewards"] = [s.reward for s in state_list]
            snap["nodes"] = state_list
            return None

        def per_sweep():
            nodes = snap.get("nodes")
            if nodes is not None:
                traj.append(max(max(s.expected_rewards, s.expected_rewards_min_reach) for s in nodes))
        try:
            with sweep_budget(r.tad, budget, n, extra_modules=(r.conditionalrewards,),
                              on_reward_phase=on_reward_phase) as shim:
                shim.per_sweep = per_sweep
                res = r.conditionalrewards.run_games({name: {k: g[k] for k in ("rewards", "players", "transition_list",
                                                                              "final_states")}})
        except BudgetExceeded:
            if "lists" not in snap:
                v.inconclusive = "reachability iteration still converging when the sweep budget ended (it cannot diverge)"
                continue
            growing = False
            if len(traj) > 300:
                inc_late = traj[-1] - traj[-101]
                inc_early = traj[-201] - traj[-301]
                growing = inc_late >= 1e-4 and inc_late >= 0.98 * inc_early
            if not growing:
                v.inconclusive = "reward iteration still converging (increments shrinking) when the sweep budget ended"
                continue
            ec = rewarded_end_component(snap["lists"], snap["players"], snap["rewards"])
            if ec is None:
                # no rewarded end component: every tracked quantity is finite and the iteration converges,
                # possibly after an astronomically long time (e.g. an exit of probability 1e-9); termination
                # on stopping games is C06's claim, with derived bounds
                v.inconclusive = "reward iteration still growing but the iterated game has no rewarded end component"
                continue
            v.fail("solve-does-not-terminate", f"{label} {name}: the total-reward iteration diverges (largest "
                   f"tracked value {traj[-1]:.6g} after {len(traj)} sweeps, still growing by "
                   f"{(traj[-1] - traj[-101]) / 100:.3g} per sweep); the conditioned game that is iterated has a "
                   f"rewarded end component (states {ec[:8]}...)",
                   sig="rewarded-end-component", known=K2 if K2 in known else None)
            continue
        except Exception as e:
            v.fail("batch-driver-raises", f"{label} {name}: {type(e).__name__}: {str(e)[:150]}", sig=type(e).__name__)
            continue
        m1 = res.get(name, {}).get("msg")
        m2 = res.get(name + "_no_prune", {}).get("msg")
        from harness.sut import entry_failed_with, entry_not_solved, entry_solved
        e1, e2 = res.get(name), res.get(name + "_no_prune")
        solved1 = entry_solved(e1)
        ok1 = solved1 or entry_failed_with(e1, "no solution")
        ok2 = entry_solved(e2) if solved1 else entry_not_solved(e2)
        if not ok1 or not ok2:
            v.fail("neither-solved-nor-no-solution", f"{label} {name}: messages {m1!r} / {m2!r}", sig=name)
        else:
            v.cls("solved" if solved1 else "no_solution")


def check_spelling(case, v):
    r = repo()
    v.nontrivial = True
    v.cls("odd_spelling")
    k0, e0, f0 = boards.run_generator_cli(case["canon"])
    k1, e1, f1 = boards.run_generator_cli(case["args"])
    if k0 != "ok":
        v.inconclusive = "canonical spelling was not accepted"
        return v
    if k1 != "ok":
        if k1 == "exit":
            v.cls("spelling_rejected_by_argparse")        # not accepted at all: outside the property
            return v
        v.fail("generator-raises", f"main({case['args']!r}) raised {type(e1).__name__}: {e1}", sig=type(e1).__name__)
        return v
    if sorted(f1) != sorted(f0):
        v.fail("output-depends-on-argument-spelling", f"main({case['args']!r}) wrote {sorted(f1)} but the canonical "
                                                      f"spelling {case['canon']!r} wrote {sorted(f0)}")
        return v
    # the files may differ in comments (that is not the property's business); what they LOAD into must agree
    loaded = {}
    for label, files in (("canonical", f0), ("odd", f1)):
        (fname, data), = files.items()
        path = os.path.join(boards.scratch_dir(), "inputs", fname)
        with open(path, "wb") as f:
            f.write(data)
        try:
            loaded[label] = r.conditionalrewards.read_dict_from_file(path)
        except Exception as e:
            v.fail("file-does-not-load", f"main({(case['args'] if label == 'odd' else case['canon'])!r}): {fname}: "
                                         f"{type(e).__name__}: {str(e)[:150]}", sig=type(e).__name__)
            return v
        finally:
            os.remove(path)
    if list(loaded["odd"].keys()) != ["game_a", "game_b", "game_c"]:
        v.fail("three-games", f"main({case['args']!r}): loaded keys {list(loaded['odd'].keys())}")
    elif loaded["odd"] != loaded["canonical"]:
        v.fail("output-depends-on-argument-spelling", f"main({case['args']!r}) and main({case['canon']!r}) denote the same "
                                                      f"parameters but their files load into different games")
    return v


def check_case(case):
    v = Verdict()
    r = repo()
    if case["kind"] == "spelling":
        return check_spelling(case, v)
    if case["kind"] == "cli":
        args = boards.cli_args(case["seed"], case["width"], case["length"], case["rb"], case["lb"], case["tb"],
                               case["lt"], case["max_reward"], case["force_down"])
        label = "main(" + " ".join(args) + ")"
        W, L = case["width"], case["length"]
        extreme = any(case[f] in (TINY, ALMOST1, 1e-9, 0.999) for f in ("rb", "lb", "tb", "lt"))
        kind, e, files = boards.run_generator_cli(args)
        if kind != "ok":
            v.nontrivial = True
            v.fail("generator-raises", f"{label}: {type(e).__name__}: {str(e)[:150]}", sig=type(e).__name__)
            return v
        fd = case["force_down"]
        if case.get("subprocess"):
            import subprocess
            import sys
            v.cls("real_subprocess")
            d = boards.clean_scratch()
            env = dict(os.environ, PYTHONDONTWRITEBYTECODE="1")
            env.pop("PYTHONPATH", None)
            p = subprocess.run([sys.executable, os.path.join(r.path, "roberta_generator.py")] + args, cwd=d, env=env,
                               capture_output=True, text=True, timeout=300)
            got = {}
            for name in sorted(os.listdir(os.path.join(d, "inputs"))):
                with open(os.path.join(d, "inputs", name), "rb") as f:
                    got[name] = f.read()
            def _load(fs):
                out = {}
                for nm, data in fs.items():
                    pth = os.path.join(d, "inputs", "__cmp__" + nm)
                    with open(pth, "wb") as fh:
                        fh.write(data)
                    try:
                        out[nm] = r.conditionalrewards.read_dict_from_file(pth)
                    except Exception as e_:
                        out[nm] = f"unloadable: {type(e_).__name__}"
                    finally:
                        os.remove(pth)
                return out
            # comments in the file may differ between the two ways of running; the games may not
            if p.returncode != 0 or sorted(got) != sorted(files) or (got != files and _load(got) != _load(files)):
                v.fail("command-line-differs", f"python roberta_generator.py {' '.join(args)} exited {p.returncode} and "
                                               f"wrote {sorted(got)}; in-process main() wrote {sorted(files)} (or the "
                                               f"files load into different games); stderr {p.stderr[-200:]}")
                return v
    else:
        b = case["board"]
        label = f"create_sg_from_board(moves={b['moves']}, rewards={b['rewards']}, loose={b['loose']}, " \
                f"rb={b['rb']!r}, lb={b['lb']!r}, tb={b['tb']!r})"
        L, W = len(b["moves"]), len(b["moves"][0])
        extreme = any(b[f] in (TINY, ALMOST1, 1e-9, 0.999) for f in ("rb", "lb", "tb"))
        fd = any(m == 3 for row in b["moves"] for m in row)
        d = boards.clean_scratch()
        cwd = os.getcwd()
        os.chdir(d)
        try:
            try:
                if L >= 2 and (L + W + len(repr(b))) % 2 == 0:
                    # a sweep over probabilities on ONE hand-made board: the same list objects were handed to the
                    # generator before, with another robot-break probability; what is examined is the later call
                    v.cls("board_objects_used_in_an_earlier_call")
                    other = 0.5 if b["rb"] != 0.5 else 0.25
                    r.stochastic_game_from_roborta_board.create_sg_from_board(b["moves"], b["rewards"], b["loose"],
                                                                              other, b["lb"], b["tb"])
                    for name in os.listdir("inputs"):
                        os.remove(os.path.join("inputs", name))
                r.stochastic_game_from_roborta_board.create_sg_from_board(b["moves"], b["rewards"], b["loose"],
                                                                          b["rb"], b["lb"], b["tb"])
            except Exception as e:
                v.nontrivial = True
                v.fail("generator-raises", f"{label}: {type(e).__name__}: {str(e)[:150]}", sig=type(e).__name__)
                return v
            files = {}
            for name in sorted(os.listdir("inputs")):
                with open(os.path.join("inputs", name), "rb") as f:
                    files[name] = f.read()
        finally:
            os.chdir(cwd)
    v.cls(case["kind"])
    if len(files) != 1:
        v.fail("file-count", f"{label} left {sorted(files)}")
        return v
    (fname, data), = files.items()
    d = boards.scratch_dir()
    path = os.path.join(d, "inputs", fname)
    with open(path, "wb") as f:
        f.write(data)
    try:
        loaded = r.conditionalrewards.read_dict_from_file(path)
    except Exception as e:
        v.nontrivial = True
        v.fail("file-does-not-load", f"{label}: {fname}: {type(e).__name__}: {str(e)[:150]}", sig=type(e).__name__)
        return v
    finally:
        os.remove(path)
    if not isinstance(loaded, dict) or list(loaded.keys()) != ["game_a", "game_b", "game_c"]:
        v.fail("three-games", f"{label}: loaded keys {list(loaded.keys()) if isinstance(loaded, dict) else type(loaded)}")
        return v
    loose_present = b"(X)" in data.split(b"{", 1)[0]
    nt = W == 1 or L == 1 or loose_present or extreme or fd
    v.nontrivial = nt
    if W == 1 or L == 1:
        v.cls("one_row_or_column")
    if loose_present:
        v.cls("loose_tile_present")
    if extreme:
        v.cls("extreme_probability")
    if fd:
        v.cls("force_down")
    ok = True
    for name in ("game_a", "game_b", "game_c"):
        ok = structural(v, f"{label} {name}", loaded[name]) and ok
    tiles = W * L
    limit = 64 if os.environ.get("VERIF_TIER_EFFECTIVE", "quick") == "quick" else 200
    if ok and tiles <= limit:
        v.cls("solved_too")
        solve_outcomes(v, label, loaded, budget=1500 if tiles <= 36 else 800)
    else:
        v.cls("structural_only")
    return v
