#!/usr/bin/env python3
"""Replace the generated table of seeded changes at the end of DESIGN.md section 8.5 (between the marker
paragraph '**All kept seeded changes' and the heading '### 8.6') with the current contents of seeded/*/meta.json."""
import glob
import json
import os
import subprocess

HERE = os.path.dirname(os.path.dirname(os.path.abspath(__file__)))
metas = [json.load(open(p)) for p in sorted(glob.glob(os.path.join(HERE, "seeded", "*", "meta.json")))]
total = len(metas)
own = other = thorough = silent = 0
special = []
for m in metas:
    checks = m.get("checks", {})
    prop = m["property"]
    if checks.get(prop, {}).get("exit") == 1:
        own += 1
    elif any(c["exit"] == 1 for c in checks.values()):
        other += 1
        special.append(f"{m['name']} by {', '.join(p for p, c in checks.items() if c['exit'] == 1)}")
    elif any(c["exit"] == 1 for c in m.get("thorough_tier", {}).values()):
        thorough += 1
        special.append(f"{m['name']} by the thorough tier only")
    else:
        silent += 1
        special.append(f"{m['name']} by no check ({m.get('note', 'see its meta.json')[:90]}...)")
table = subprocess.run(["python3", os.path.join(HERE, "tools", "seeded_table.py")], capture_output=True, text=True).stdout
intro = (f"**All kept seeded changes and what the final checks say about them** (quick tier,\n"
         f"`VERIF_SEED=1`, produced by `tools/reeval_all_seeded.sh` + `tools/update_design_table.py`).  {own} of the {total}\n"
         f"changes are reported by the quick check of the property they were written against, {other} by another\n"
         f"property's quick check, {thorough} by the thorough tier only, {silent} by none.  The exceptions: "
         + "; ".join(special) + ".\n\n")
path = os.path.join(HERE, "DESIGN.md")
s = open(path).read()
i = s.index("**All kept seeded changes")
j = s.index("### 8.6")
s = s[:i] + intro + table.rstrip() + "\n\n" + s[j:]
open(path, "w").write(s)
print(total, own, other, thorough, silent)
