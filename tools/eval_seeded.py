#!/venv/bin/python
"""Confirm a seeded change and run the checks against it.

usage: tools/eval_seeded.py <src-dir with patch.diff demo.py notes.md> <seed-name> <PROPERTY> [other checks ...]

Steps (all in a scratch worktree of /repo's HEAD outside /repo and /verif, removed afterwards):
  1. the patch applies with `git apply`;  2. the repository's 57 tests still pass with it;
  3. the demonstration exits 1 with the change and 0 without;
  4. the named property's quick check (and any further checks listed) run with VERIF_REPO
     pointing at the patched worktree, evidence redirected.
If 1-3 hold the change is kept as /verif/seeded/<seed-name>/ (patch.diff, demo.py, notes.md, meta.json).
"""
import json
import os
import shutil
import subprocess
import sys
import tempfile
import time

VERIF = os.path.dirname(os.path.dirname(os.path.abspath(__file__)))


def sh(cmd, **kw):
    return subprocess.run(cmd, capture_output=True, text=True, **kw)


def main():
    src, name, prop = sys.argv[1], sys.argv[2], sys.argv[3]
    others = sys.argv[4:]
    tmp = tempfile.mkdtemp(prefix="seedeval_")
    wt = os.path.join(tmp, "repo")
    meta = dict(name=name, property=prop, confirmed=False)
    try:
        r = sh(["git", "-C", "/repo", "worktree", "add", "-q", "--detach", wt, "HEAD"])
        if r.returncode:
            print("worktree failed", r.stderr)
            return 2
        os.makedirs(os.path.join(wt, "outputs"), exist_ok=True)
        head = sh(["git", "-C", "/repo", "rev-parse", "--short", "HEAD"]).stdout.strip()
        meta["repo_commit"] = head
        patch = os.path.abspath(os.path.join(src, "patch.diff"))
        demo = os.path.abspath(os.path.join(src, "demo.py"))
        d0 = sh(["/venv/bin/python", demo, wt], timeout=300)
        meta["demo_without_change_exit"] = d0.returncode
        a = sh(["git", "-C", wt, "apply", patch])
        if a.returncode:
            # written against an earlier repository commit: let git merge it (the blobs it names are in the history)
            a = sh(["git", "-C", wt, "apply", "--3way", patch])
            if a.returncode == 0:
                sh(["git", "-C", wt, "reset", "-q"])
                meta["applied_with_3way_merge"] = True
        meta["patch_applies"] = a.returncode == 0
        if a.returncode:
            print("patch does not apply:", a.stderr[:300])
            meta["error"] = a.stderr[:300]
        else:
            t = sh(["/venv/bin/python", "-m", "pytest", "-q", "-p", "no:cacheprovider"], cwd=wt, timeout=900)
            meta["repo_tests_pass_with_change"] = t.returncode == 0
            meta["repo_tests_tail"] = t.stdout.strip().splitlines()[-1:] if t.stdout else []
            d1 = sh(["/venv/bin/python", demo, wt], timeout=300)
            meta["demo_with_change_exit"] = d1.returncode
            meta["demo_with_change_output"] = (d1.stdout + d1.stderr)[-400:]
            meta["confirmed"] = bool(meta["repo_tests_pass_with_change"] and d1.returncode == 1 and d0.returncode == 0)
            env = dict(os.environ, VERIF_REPO=wt, VERIF_OUT=os.path.join(tmp, "out"))
            meta["checks"] = {}
            for p in [prop] + others:
                t0 = time.time()
                c = sh([os.path.join(VERIF, "check"), p, "--tier", "quick"], env=env, timeout=3600)
                first = [l.strip()[:300] for l in c.stdout.splitlines() if l.startswith("  ")][:2]
                meta["checks"][p] = dict(exit=c.returncode, wall_s=round(time.time() - t0, 1), first_violations=first,
                                         summary=[l for l in c.stdout.splitlines() if "tier=" in l or "HARNESS" in l][-1:])
        meta["ran"] = f"tools/eval_seeded.py {src} {name} {prop} {' '.join(others)}".strip()
        if meta["confirmed"]:
            dst = os.path.join(VERIF, "seeded", name)
            os.makedirs(dst, exist_ok=True)
            for f in ("patch.diff", "demo.py", "notes.md"):
                if os.path.exists(os.path.join(src, f)) and \
                        os.path.realpath(os.path.join(src, f)) != os.path.realpath(os.path.join(dst, f)):
                    shutil.copy(os.path.join(src, f), os.path.join(dst, f))
            old = {}
            mp = os.path.join(dst, "meta.json")
            if os.path.exists(mp):
                old = json.load(open(mp))
            old.update(meta)
            notes = os.path.join(src, "notes.md")
            if os.path.exists(notes) and "needs_to_manifest" not in old:
                old["needs_to_manifest"] = open(notes).read()[:1200]
            json.dump(old, open(mp, "w"), indent=1)
        print(json.dumps(meta, indent=1))
        return 0
    finally:
        sh(["git", "-C", "/repo", "worktree", "remove", "--force", wt])
        shutil.rmtree(tmp, ignore_errors=True)


if __name__ == "__main__":
    sys.exit(main())
