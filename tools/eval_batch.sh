#!/bin/sh
# tools/eval_batch.sh <PROP> <letter> <checks...>: evaluate /tmp/seeded_out/<PROP>/<letter> and print a one-screen summary
prop="$1"; letter="$2"; shift 2
out="/tmp/ev_${prop}${letter}.json"
/verif/tools/eval_seeded.py "/tmp/seeded_out/$prop/$letter" "$prop-$letter" "$@" > "$out" 2>&1
python3 - "$out" <<'PY'
import json,sys
try:
    d=json.load(open(sys.argv[1]))
except Exception as e:
    print(sys.argv[1], "UNPARSEABLE", open(sys.argv[1]).read()[-500:]); sys.exit()
print(d['name'], 'confirmed=',d['confirmed'], 'tests=',d.get('repo_tests_pass_with_change'), 'demo with/without=',d.get('demo_with_change_exit'), d.get('demo_without_change_exit'))
for k,c in d.get('checks',{}).items(): print('   ',k,'exit',c['exit'],f"{c['wall_s']}s",(c['first_violations'][:1] or c['summary'])[0][:220])
PY
