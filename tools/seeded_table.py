#!/usr/bin/env python3
"""Print the markdown table of seeded changes (from /verif/seeded/*/meta.json) for DESIGN.md 8.5."""
import glob
import json
import os

HERE = os.path.dirname(os.path.dirname(os.path.abspath(__file__)))
rows = []
for mp in sorted(glob.glob(os.path.join(HERE, "seeded", "*", "meta.json"))):
    m = json.load(open(mp))
    notes = os.path.join(os.path.dirname(mp), "notes.md")
    what = ""
    if os.path.exists(notes):
        txt = [l.strip() for l in open(notes).read().splitlines()
               if l.strip() and not l.startswith("#") and not l.startswith("PROPERTIES:")]
        what = (txt[0] if txt else "")[:170]
    caught = [f"{p} ({c['first_violations'][0].split(':')[0] if c['first_violations'] else 'exit 1'})"
              for p, c in m.get("checks", {}).items() if c["exit"] == 1]
    silent = [p for p, c in m.get("checks", {}).items() if c["exit"] == 0]
    caught += [f"{p} thorough tier only ({c['first_violation'].split(':')[0]})"
               for p, c in m.get("thorough_tier", {}).items() if c["exit"] == 1]
    rows.append(f"| {m['name']} | {what.replace('|', '/')} | {', '.join(caught) or '-'} | {', '.join(silent) or '-'} |")
print("| seeded change | what it does (author's notes, first line) | reported by (quick tier unless stated) | also run, silent |")
print("|---|---|---|---|")
print("\n".join(rows))
