#!/bin/sh
# Re-run every kept seeded change against the current checks (4 at a time); sources are the kept copies.
cd /verif
ls seeded | while read name; do
  prop=$(python3 -c "import json;print(json.load(open('seeded/$name/meta.json'))['property'])")
  others=$(python3 -c "import json;m=json.load(open('seeded/$name/meta.json'));print(' '.join(k for k in m.get('checks',{}) if k!=m['property'] and len(k)==3))")
  echo "$name $prop $others" | sed 's/ *$//' 
done > /tmp/seeded_jobs.txt
cat /tmp/seeded_jobs.txt | xargs -P 4 -L 1 sh -c 'tools/eval_seeded.py seeded/$0 $0 $1 $2 $3 $4 > /tmp/reeval_$0.json 2>&1; python3 -c "
import json,sys
try:
    d=json.load(open(\"/tmp/reeval_$0.json\"))
    print(d[\"name\"], \"confirmed\", d[\"confirmed\"], {k:c[\"exit\"] for k,c in d.get(\"checks\",{}).items()})
except Exception as e:
    print(\"$0 UNPARSEABLE\", open(\"/tmp/reeval_$0.json\").read()[-300:])
"'
