#!/bin/sh
# tools/run_all.sh [tier] [seed ...]: run every registered check, print one line per run (exit code + summary).
# Evidence goes to a scratch dir unless VERIF_OUT is set by the caller (so committed evidence is not disturbed).
tier="${1:-quick}"; shift
seeds="${*:-1}"
HERE="$(cd "$(dirname "$0")/.." && pwd)"
out="${VERIF_OUT:-$(mktemp -d /tmp/runall_XXXXXX)}"
for seed in $seeds; do
  for id in C01 C02 C03 C04 C05 C06 C07 C08 C09 C10 C11 C12 C13 C14 C15 C16 C17; do
    start=$(date +%s)
    res=$(VERIF_SEED=$seed VERIF_OUT="$out" "$HERE/check" $id --tier $tier 2>&1)
    code=$?
    echo "seed=$seed $id exit=$code $(($(date +%s)-start))s :: $(echo "$res" | grep -E 'tier=|HARNESS|VIOLATION' | head -3 | tr '\n' ' ' | cut -c1-300)"
  done
done
if [ -z "$VERIF_OUT" ]; then rm -rf "$out"; fi
