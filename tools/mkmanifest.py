#!/usr/bin/env python3
"""Regenerate /verif/MANIFEST.json from the property modules that exist (props/cNN.py).

Every property in properties.jsonl without a module is listed under
not_applicable with the reason "not built yet", so the manifest is valid and
current at every commit.
"""
import importlib
import json
import os
import subprocess
import sys

HERE = os.path.dirname(os.path.dirname(os.path.abspath(__file__)))
sys.path.insert(0, HERE)
os.environ.setdefault("PYTHONHASHSEED", "0")

LEVEL_TEXT = {}


def main():
    props = [json.loads(l) for l in open(os.path.join(HERE, "properties.jsonl"))]
    checks, na = [], []
    for p in props:
        pid = p["id"]
        path = os.path.join(HERE, "props", pid.lower() + ".py")
        if not os.path.exists(path):
            na.append(dict(property_id=pid, reason="check not built yet (work in progress); the technique applies, see DESIGN.md section 3"))
            continue
        mod = importlib.import_module("props." + pid.lower())
        checks.append(dict(
            property_id=pid,
            quick_cmd=f"./check {pid} --tier quick",
            thorough_cmd=f"./check {pid} --tier thorough",
            evidence_file=f"/verif/evidence/{pid}.json",
            replay_cmd_template=f"./check {pid} --replay {{path}}",
            engine="pbt-runner",
            level_claimed=dict(category=mod.LEVEL, text=mod.LEVEL_TEXT, design_ref=f"DESIGN.md section 3 ({pid})"),
            level_note=mod.LEVEL_NOTE,
            technique=mod.TECHNIQUE,
        ))
    fixes = subprocess.run(["git", "-C", "/repo", "log", "--format=%h %s"], capture_output=True, text=True).stdout
    manifest = dict(
        version=1,
        setup_cmd="/venv/bin/python -c 'import hypothesis' 2>/dev/null || /venv/bin/pip install --no-index --find-links /opt/veriftools/wheels hypothesis; ./selftest/run.sh",
        hooks=dict(
            guard="CONDREWARDS_VERIF",
            enable="no source hooks: the harness monkey-patches tad.logging and the node step methods at run time (harness/budget.py); ./check exports CONDREWARDS_VERIF=1 for form only",
            baseline_off_cmd="cd /repo && /venv/bin/python -m pytest -ra -q -p no:cacheprovider --timeout=900 --continue-on-collection-errors",
            source_commits=[],
            add_only=True,
        ),
        engines=[dict(name="pbt-runner", path="/verif/harness/runner.py",
                      serves_properties=[c["property_id"] for c in checks],
                      kind_free_text="Hypothesis-driven generated-input search (seeded from VERIF_SEED, sharded over processes; op-list and RuleBasedStateMachine generation for histories) plus enumerated finite cores, each case decided by an explicit oracle (exact rational reference solver, abstract rule model, differential or metamorphic relation, invariant); collect-then-shrink; replay files bypass Hypothesis"),
                 dict(name="atheris-fuzz-stage", path="/verif/harness/fuzzstage.py", serves_properties=["C07", "C09"],
                      kind_free_text="coverage-guided fuzzing (atheris / libFuzzer under python3-vt) of fuzz/fuzz_revdfs.py and fuzz/fuzz_validate.py with the semantic oracle inside the target; crashing inputs are decoded into plain cases and decided by the property's own check_case; run as an extra stage of ./check C07 and ./check C09")],
        checks=checks,
        notes="All checks import the repository fresh from /repo's working tree (VERIF_REPO overrides). Exit 0 = held, 1 = VIOLATION line printed, 2 = harness error / inconclusive. Known findings: /verif/known_findings.json. Repository fix commits so far:\n" + "".join("  " + l + "\n" for l in fixes.splitlines() if " fix:" in l),
        not_applicable=na,
    )
    with open(os.path.join(HERE, "MANIFEST.json"), "w") as f:
        json.dump(manifest, f, indent=1)
        f.write("\n")
    print(f"MANIFEST.json: {len(checks)} checks, {len(na)} not yet claimed")


if __name__ == "__main__":
    main()
