#!/bin/sh
# tools/check_seeded_apply.sh: which stored seeded patches still apply to /repo's HEAD?
for d in /verif/seeded/*/; do
  n=$(basename "$d")
  if git -C /repo apply --check "$d/patch.diff" 2>/dev/null; then echo "$n applies"; else echo "$n DOES NOT APPLY"; fi
done
