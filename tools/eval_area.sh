#!/bin/sh
# tools/eval_area.sh <AREA> <letter> [extra checks...]: evaluate /tmp/seeded_out/<AREA>/<letter> (round 8: changes written
# against an area of the code); the properties to run come from the first line of its notes.md ("PROPERTIES: C03 C02").
area="$1"; letter="$2"; shift 2
src="/tmp/seeded_out/$area/$letter"
props=$(head -1 "$src/notes.md" | sed -n 's/^PROPERTIES:\s*//p' | tr -d '\r' | tr ',' ' ')
[ -z "$props" ] && { echo "$area-$letter: no PROPERTIES line"; exit 0; }
out="/tmp/ev_${area}${letter}.json"
/verif/tools/eval_seeded.py "$src" "$area-$letter" $props "$@" > "$out" 2>&1
python3 - "$out" <<'PY'
import json,sys
try:
    d=json.load(open(sys.argv[1]))
except Exception as e:
    print(sys.argv[1], "UNPARSEABLE", open(sys.argv[1]).read()[-500:]); sys.exit()
print(d['name'], 'confirmed=',d['confirmed'], 'tests=',d.get('repo_tests_pass_with_change'), 'demo with/without=',d.get('demo_with_change_exit'), d.get('demo_without_change_exit'))
for k,c in d.get('checks',{}).items(): print('   ',k,'exit',c['exit'],f"{c['wall_s']}s",(c['first_violations'][:1] or c['summary'])[0][:220])
PY
