#!/venv/bin/python
"""Run every quick check against a change that is meant to PRESERVE all properties.

usage: tools/eval_benign.py <src-dir with patch.diff notes.md> <name> [IDs ...]

A scratch worktree of /repo's HEAD (outside /repo and /verif, removed afterwards) gets the patch; the repository's
tests and the quick tier of every check (or the IDs given) run against it with evidence redirected.  The change is
kept under /verif/benign/<name>/ with meta.json saying which checks stayed silent (exit 0) and which spoke up.
"""
import json
import os
import shutil
import subprocess
import sys
import tempfile
import time

VERIF = os.path.dirname(os.path.dirname(os.path.abspath(__file__)))
ALL = [f"C{i:02d}" for i in range(1, 18)]


def sh(cmd, **kw):
    return subprocess.run(cmd, capture_output=True, text=True, **kw)


def main():
    src, name = sys.argv[1], sys.argv[2]
    ids = sys.argv[3:] or ALL
    tmp = tempfile.mkdtemp(prefix="benign_")
    wt = os.path.join(tmp, "repo")
    meta = dict(name=name)
    try:
        if sh(["git", "-C", "/repo", "worktree", "add", "-q", "--detach", wt, "HEAD"]).returncode:
            print("worktree failed")
            return 2
        os.makedirs(os.path.join(wt, "outputs"), exist_ok=True)
        meta["repo_commit"] = sh(["git", "-C", "/repo", "rev-parse", "--short", "HEAD"]).stdout.strip()
        patch = os.path.abspath(os.path.join(src, "patch.diff"))
        a = sh(["git", "-C", wt, "apply", patch])
        if a.returncode:
            a = sh(["git", "-C", wt, "apply", "--3way", patch])
            sh(["git", "-C", wt, "reset", "-q"])
        meta["patch_applies"] = a.returncode == 0
        if a.returncode == 0:
            t = sh(["/venv/bin/python", "-m", "pytest", "-q", "-p", "no:cacheprovider"], cwd=wt, timeout=900)
            meta["repo_tests_pass_with_change"] = t.returncode == 0
            env = dict(os.environ, VERIF_REPO=wt, VERIF_OUT=os.path.join(tmp, "out"))
            meta["checks"] = {}
            for p in ids:
                t0 = time.time()
                c = sh([os.path.join(VERIF, "check"), p, "--tier", "quick"], env=env, timeout=3600)
                first = [l.strip()[:400] for l in c.stdout.splitlines() if l.startswith("  ")][:2]
                if c.returncode == 2:
                    first = [l[:400] for l in (c.stdout + c.stderr).splitlines() if "Error" in l][:2]
                meta["checks"][p] = dict(exit=c.returncode, wall_s=round(time.time() - t0, 1), first_lines=first)
        dst = os.path.join(VERIF, "benign", name)
        os.makedirs(dst, exist_ok=True)
        for f in ("patch.diff", "notes.md"):
            if os.path.exists(os.path.join(src, f)) and \
                    os.path.realpath(os.path.join(src, f)) != os.path.realpath(os.path.join(dst, f)):
                shutil.copy(os.path.join(src, f), os.path.join(dst, f))
        old = {}
        mp = os.path.join(dst, "meta.json")
        if os.path.exists(mp):
            old = json.load(open(mp))
        merged = dict(old.get("checks", {}))
        merged.update(meta.get("checks", {}))            # a partial re-run (IDs given) keeps what the other checks said
        old.update(meta)
        if merged:
            old["checks"] = merged
        json.dump(old, open(mp, "w"), indent=1)
        loud = {p: c for p, c in meta.get("checks", {}).items() if c["exit"] != 0}
        print(name, "applies=", meta["patch_applies"], "tests=", meta.get("repo_tests_pass_with_change"),
              "silent=", sum(1 for c in meta.get("checks", {}).values() if c["exit"] == 0), "of", len(meta.get("checks", {})))
        for p, c in loud.items():
            print("   ", p, "exit", c["exit"], (c["first_lines"] or [""])[0][:260])
        return 0
    finally:
        sh(["git", "-C", "/repo", "worktree", "remove", "--force", wt])
        shutil.rmtree(tmp, ignore_errors=True)


if __name__ == "__main__":
    sys.exit(main())
