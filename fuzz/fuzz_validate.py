"""atheris (libFuzzer) target for C09: coverage-guided search over game descriptions.

Bytes are decoded into a structured description (mostly valid values, junk from the same pools
as the fault enumerator, list lengths that may be off by one), so the fuzzer reaches the
validation logic instead of dying in the decoder.  The semantic oracle is inside the target:
the independent rule statement (harness/refvalid.py) decides whether the description is
well-formed; validation must accept it in that case, and solve() must raise ValueError (and
nothing else) otherwise.  A disagreement raises Disagreement, which libFuzzer records as a
crash; the driver (harness/fuzzstage.py) turns the crashing input into a C09 replay file.

Run by the driver as:  python3-vt fuzz/fuzz_validate.py <corpus-dir> -runs=N -seed=S ...
Decode-only mode:      python3-vt fuzz/fuzz_validate.py --decode <file>   (prints the description as JSON)
"""
import os
import sys

HERE = os.path.dirname(os.path.dirname(os.path.abspath(__file__)))
sys.path.insert(0, HERE)
REPO = os.path.realpath(os.environ.get("VERIF_REPO", "/repo"))
sys.path.insert(0, REPO)
sys.dont_write_bytecode = True

import atheris  # noqa: E402

with atheris.instrument_imports(include=["tad", "reverse_dfs"]):
    import tad  # noqa: E402

from harness.budget import BudgetExceeded, sweep_budget  # noqa: E402
from harness.refvalid import P1, P2, PR, reference_valid  # noqa: E402

assert os.path.realpath(tad.__file__).startswith(REPO + os.sep), tad.__file__

PLAYERS_JUNK = ["Player 3", "player 1", "", None, 1, "Probabilistic "]
REWARDS = [0, 1, 2, 0.5, 5]
REWARDS_JUNK = [-1, -1e-9, -0.5]
ACTIONS = ["a", "b", "c", " "]
ACTIONS_JUNK = [7, 0.5, None, b"a", ("a",)]
PROBS = [1, 0.5, 0.25, 0.75, 0.125]
PROBS_JUNK = ["0.5", None, 0.5j, [0.5]]
STATE_JUNK = [None, 5, (), "ab", 0, {}]


class Disagreement(Exception):
    pass


def decode(data):
    fdp = atheris.FuzzedDataProvider(data)
    n = fdp.ConsumeIntInRange(1, 5)

    def junk(p=12):
        return fdp.ConsumeIntInRange(0, 99) < p

    def length():
        r = fdp.ConsumeIntInRange(0, 49)
        return n + (1 if r == 0 else -1 if r == 1 else 0)
    players = [fdp.PickValueInList(PLAYERS_JUNK) if junk(6) else fdp.PickValueInList([P1, P2, PR])
               for _ in range(max(0, length()))]
    rewards = [fdp.PickValueInList(REWARDS_JUNK) if junk(5) else fdp.PickValueInList(REWARDS)
               for _ in range(max(0, length()))]
    tl = []
    for s in range(max(0, length())):
        if junk(5):
            tl.append(fdp.PickValueInList(STATE_JUNK))
            continue
        owner = players[s] if s < len(players) else PR
        k = fdp.ConsumeIntInRange(0 if junk(8) else 1, 3)
        lst = []
        for _ in range(k):
            t = fdp.ConsumeIntInRange(-1, n) if junk(15) else fdp.ConsumeIntInRange(0, n - 1)
            if junk(4):
                t = fdp.PickValueInList([1.0, "1", None])
            if owner == PR:
                lab = fdp.PickValueInList(PROBS_JUNK) if junk(6) else fdp.PickValueInList(PROBS)
            else:
                lab = fdp.PickValueInList(ACTIONS_JUNK) if junk(6) else fdp.PickValueInList(ACTIONS)
            shape = fdp.ConsumeIntInRange(0, 59)
            if shape == 0:
                lst.append([lab, t])
            elif shape == 1:
                lst.append((lab,))
            elif shape == 2:
                lst.append((lab, t, t))
            elif shape == 3:
                lst.append(t)
            else:
                lst.append((lab, t))
        tl.append(tuple(lst) if junk(3) else lst)
    nf = fdp.ConsumeIntInRange(0 if junk(6) else 1, 3)
    finals = [fdp.ConsumeIntInRange(-1, n) if junk(10) else fdp.ConsumeIntInRange(0, n - 1) for _ in range(nf)]
    return dict(rewards=rewards, players=players, transition_list=tl, final_states=finals)


def copy_game(g):
    return dict(rewards=list(g["rewards"]), players=list(g["players"]),
                transition_list=[list(x) if isinstance(x, list) else x for x in g["transition_list"]],
                final_states=list(g["final_states"]))


def check(g):
    try:
        verdict = reference_valid(g)
    except Exception:
        return "outside"
    n = max(4, len(g["players"]))
    with sweep_budget(tad, 2000, n):
        if verdict is None:
            try:
                sg = tad.StochasticGame(**copy_game(g))
                sg.check_game()
                sg.init_states()
            except Exception as e:
                raise Disagreement(f"well-formed game rejected: {type(e).__name__}: {e}: {g!r}")
            return "accepted"
        for prune in (True, False):
            try:
                tad.StochasticGame(prune_states=prune, **copy_game(g)).solve()
            except ValueError:
                continue
            except BudgetExceeded:
                raise Disagreement(f"rule {verdict} broken but validation passed (still iterating): {g!r}")
            except Exception as e:
                raise Disagreement(f"rule {verdict} broken but solve raised {type(e).__name__}: {e}: {g!r}")
            raise Disagreement(f"rule {verdict} broken but solve(prune={prune}) returned: {g!r}")
        return "rejected:" + verdict


STATS = {}
_STATS_PATH = os.environ.get("FUZZ_STATS")
_count = [0]


def _dump():
    if _STATS_PATH:
        import json
        with open(_STATS_PATH + ".tmp", "w") as f:
            json.dump(dict(STATS, _executions=_count[0]), f)
        os.replace(_STATS_PATH + ".tmp", _STATS_PATH)


def TestOneInput(data):
    g = decode(data)
    try:
        k = check(g)
    except Disagreement:
        _dump()
        raise
    STATS[k] = STATS.get(k, 0) + 1
    _count[0] += 1
    if _count[0] % 1000 == 0:     # atexit handlers do not run under libFuzzer: dump periodically
        _dump()


def main():
    if len(sys.argv) >= 3 and sys.argv[1] == "--decode":
        import json
        from harness import codec
        with open(sys.argv[2], "rb") as f:
            g = decode(f.read())
        print(json.dumps(codec.enc(g)))
        return
    atheris.Setup(sys.argv, TestOneInput)
    atheris.Fuzz()


if __name__ == "__main__":
    main()
