"""atheris (libFuzzer) target for C07: coverage-guided search over digraphs and final lists.

Bytes -> (transition list, final list); oracle inside the target: set-based BFS over reversed
edges and an edge Counter (the same reference as props/c07.py, restated here without imports
from it).  A disagreement raises Disagreement (a libFuzzer crash); the driver decodes the saved
input back into a C07 case, which props/c07.check_case then decides.
"""
import collections
import os
import sys

HERE = os.path.dirname(os.path.dirname(os.path.abspath(__file__)))
sys.path.insert(0, HERE)
REPO = os.path.realpath(os.environ.get("VERIF_REPO", "/repo"))
sys.path.insert(0, REPO)
sys.dont_write_bytecode = True

import atheris  # noqa: E402

with atheris.instrument_imports(include=["reverse_dfs"]):
    import reverse_dfs  # noqa: E402

assert os.path.realpath(reverse_dfs.__file__).startswith(REPO + os.sep), reverse_dfs.__file__


class Disagreement(Exception):
    pass


def decode(data):
    fdp = atheris.FuzzedDataProvider(data)
    n = fdp.ConsumeIntInRange(1, 24)
    tl = []
    for _ in range(n):
        k = fdp.ConsumeIntInRange(0, 4)
        tl.append([("x", fdp.ConsumeIntInRange(0, n - 1)) for _ in range(k)])
    nf = fdp.ConsumeIntInRange(1, 4)
    finals = [fdp.ConsumeIntInRange(0, n - 1) for _ in range(nf)]
    return dict(tl=tl, finals=finals)


def check(case):
    tl, finals = case["tl"], case["finals"]
    n = len(tl)
    pred = [set() for _ in range(n)]
    for u, lst in enumerate(tl):
        for _, v in lst:
            pred[v].add(u)
    seen = set(finals)
    stack = list(seen)
    while stack:
        v = stack.pop()
        for u in pred[v]:
            if u not in seen:
                seen.add(u)
                stack.append(u)
    expect = sorted(seen - set(finals))
    got = reverse_dfs.reverse_dfs([list(l) for l in tl], list(finals))
    if got != expect:
        raise Disagreement(f"reverse_dfs returned {got}, expected {expect} for {case!r}")
    table = reverse_dfs.reverse_transition_list([list(l) for l in tl])
    if sorted(table.keys()) != list(range(n)):
        raise Disagreement(f"reversed table keys {sorted(table.keys())} for {case!r}")
    want = collections.defaultdict(collections.Counter)
    for u, lst in enumerate(tl):
        for _, t in lst:
            want[t][u] += 1
    for t in range(n):
        if collections.Counter(table[t]) != want[t]:
            raise Disagreement(f"reversed table entry {t} = {table[t]} for {case!r}")
    return "multi_pred" if any(len([t for _, t in tl[u] if t in seen]) >= 2 for u in expect) else "simple"


STATS = {}
_STATS_PATH = os.environ.get("FUZZ_STATS")
_count = [0]


def _dump():
    if _STATS_PATH:
        import json
        with open(_STATS_PATH + ".tmp", "w") as f:
            json.dump(dict(STATS, _executions=_count[0]), f)
        os.replace(_STATS_PATH + ".tmp", _STATS_PATH)


def TestOneInput(data):
    case = decode(data)
    try:
        k = check(case)
    except Disagreement:
        _dump()
        raise
    STATS[k] = STATS.get(k, 0) + 1
    _count[0] += 1
    if _count[0] % 1000 == 0:
        _dump()


def main():
    if len(sys.argv) >= 3 and sys.argv[1] == "--decode":
        import json
        from harness import codec
        with open(sys.argv[2], "rb") as f:
            print(json.dumps(codec.enc(decode(f.read()))))
        return
    atheris.Setup(sys.argv, TestOneInput)
    atheris.Fuzz()


if __name__ == "__main__":
    main()
