"""Self-test of the reference oracles and generators (no solver code of the repository is run).

* strategy iteration == brute-force enumeration (reachability and total reward) on
  generated stopping games;
* every constructed "stopping game" passes the exact end-component test;
* hand-computed values of the paper's figure 5.5 game (3/4 from the initial state);
* codec round-trip.
A failure here is a harness error (exit 2), never a VIOLATION.
"""
import sys
import time
from fractions import Fraction as F

import hypothesis
from hypothesis import HealthCheck, Phase, given, settings

from harness import codec, exact, games

t0 = time.time()
count = dict(games=0, brute=0, cyc=0)


@hypothesis.seed(20261004)
@settings(max_examples=300, database=None, deadline=None, suppress_health_check=list(HealthCheck),
          phases=[Phase.generate])
@given(games.stopping_games(max_inner=7))
def si_equals_brute(g):
    count["games"] += 1
    assert exact.is_stopping(g), ("constructed game is not stopping", g)
    assert codec.loads(codec.dumps(g)) == g
    if exact.has_cycle(g):
        count["cyc"] += 1
    v1, _ = exact.strategy_iteration(g, "reach")
    w1, _ = exact.strategy_iteration(g, "total")
    if exact.n_strategy_pairs(g) <= 512:
        count["brute"] += 1
        assert v1 == exact.brute(g, "reach"), ("reach SI != brute", g)
        assert w1 == exact.brute(g, "total"), ("total SI != brute", g)
    T = exact.max_expected_steps(g)
    assert T >= 0


def figures():
    P1, P2, PR = exact.P1, exact.P2, exact.PR
    g55 = dict(rewards=[0, 2, 5 / 3, 0, 0, 0, 0, 0],
               players=[P1, P2, P2, PR, PR, PR, PR, PR],
               transition_list=[[("alfa", 1), ("beta", 2)], [(" ", 3)], [(" ", 4)],
                                [(0.5, 5), (0.5, 6)], [(0.75, 6), (0.25, 7)], [(1, 5)], [(1, 6)], [(1, 7)]],
               final_states=[6])
    v = exact.reach_values(g55)
    assert v == [F(3, 4), F(1, 2), F(3, 4), F(1, 2), F(3, 4), 0, 1, 0], v
    assert exact.reach_values_stopping(g55) == v
    assert exact.is_stopping(g55)
    # conditioned on reaching 6 with beta only: reward 5/3 collected at state 2
    cg = exact.conditioned_game(g55, [["beta"], [" "], [" "], None, None, None, None, None],
                                [float(x) for x in v], True)
    w = exact.total_reward_values(cg)
    assert w[0] == F(5 / 3) and w[2] == F(5 / 3) and w[4] == 0, w
    assert cg["transition_list"][4] == [(F(1), 6)], cg["transition_list"][4]
    # a game with a player-only end component is not stopping, and its value needs the least fixed point
    ec = dict(rewards=[0, 0, 0, 0], players=[P1, P1, PR, PR],
              transition_list=[[("a", 1), ("b", 2)], [("a", 0)], [(0.5, 3), (0.5, 2)], [(1, 3)]],
              final_states=[3])
    assert not exact.is_stopping(ec)
    assert exact.reach_values(ec) == [1, 1, 1, 1]
    ec["transition_list"][2] = [(0.5, 3), (0.5, 1)]
    assert exact.reach_values(ec) == [1, 1, 1, 1]
    ec["players"][1] = P2
    ec["transition_list"][1] = [("a", 0), ("b", 1)]
    assert exact.reach_values(ec) == [F(1, 2), 0, F(1, 2), 1], exact.reach_values(ec)


try:
    si_equals_brute()
    figures()
except Exception as e:  # noqa
    print(f"HARNESS-ERROR: oracle self-test failed: {type(e).__name__}: {e}")
    sys.exit(2)
if count["cyc"] < 30 or count["brute"] < 200:
    print(f"HARNESS-ERROR: oracle self-test generator floor missed: {count}")
    sys.exit(2)
print(f"oracle self-test ok: {count['games']} stopping games ({count['cyc']} cyclic), "
      f"{count['brute']} cross-checked against enumeration, {time.time() - t0:.1f}s")
sys.exit(0)
