"""Self-test of the reference oracles (no repository code involved)."""
import sys
print("oracle self-test: placeholder ok")
sys.exit(0)
