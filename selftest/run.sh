#!/bin/sh
# Oracle / harness self-test run by MANIFEST.setup_cmd (seconds).  Exit 0 = the harness is usable.
HERE="$(cd "$(dirname "$0")/.." && pwd)"
cd "$HERE" || exit 2
export PYTHONHASHSEED=0 PYTHONDONTWRITEBYTECODE=1 PYTHONPATH="$HERE"
exec /venv/bin/python -B selftest/oracle_selftest.py
