#!/bin/sh
# selftest/check_at.sh <commit> <ID> [<ID> ...]: run quick checks against a scratch worktree of /repo at <commit>
# (outside /repo and /verif; removed afterwards; evidence and replays redirected to the scratch dir).
commit="$1"; shift
HERE="$(cd "$(dirname "$0")/.." && pwd)"
tmp="$(mktemp -d /tmp/checkat_XXXXXX)"
git -C /repo worktree add -q --detach "$tmp/repo" "$commit" || exit 2
mkdir -p "$tmp/repo/outputs"
for id in "$@"; do
  echo "=== $id at $commit"
  VERIF_REPO="$tmp/repo" VERIF_OUT="$tmp/out" "$HERE/check" "$id" --tier quick | cut -c1-400
done
git -C /repo worktree remove --force "$tmp/repo"
rm -rf "$tmp"
