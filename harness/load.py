"""Import the repository's modules fresh from the working tree.

The repository is pure Python with flat top-level modules, so "rebuilding from
/repo's current working tree" is: no byte-code cache, /repo first on sys.path,
import, and assert that every module really came from there.  VERIF_REPO lets the
mutant suite point the same checks at a scratch copy.
"""
import importlib
import os
import sys

sys.dont_write_bytecode = True

REPO = os.path.realpath(os.environ.get("VERIF_REPO", "/repo"))
MODULES = ("reverse_dfs", "tad", "conditionalrewards", "roberta_generator",
           "stochastic_game_from_roborta_board")


class HarnessError(Exception):
    """Something is wrong with the harness or its environment (exit 2, never a VIOLATION)."""


class Repo:
    pass


_repo = None


def repo():
    global _repo
    if _repo is not None:
        return _repo
    if not os.path.isdir(REPO):
        raise HarnessError(f"repository not found at {REPO}")
    if sys.path[0] != REPO:
        sys.path.insert(0, REPO)
    r = Repo()
    for name in MODULES:
        try:
            mod = importlib.import_module(name)
        except Exception as e:  # the tree does not even import: not a property verdict
            raise HarnessError(f"cannot import {name} from {REPO}: {type(e).__name__}: {e}")
        f = os.path.realpath(getattr(mod, "__file__", "") or "")
        if not f.startswith(REPO + os.sep):
            raise HarnessError(f"{name} imported from {f}, expected under {REPO}")
        setattr(r, name, mod)
    r.path = REPO
    _repo = r
    return r


import contextlib


@contextlib.contextmanager
def fresh_instance():
    """Within the block, repo() hands out a NEWLY imported set of the repository's modules (their own module
    globals, class attributes, default-argument objects and caches), as a fresh interpreter would have them;
    afterwards the usual instance is back.  For references that must not inherit anything an earlier call in
    this process may have left behind."""
    global _repo
    repo()                                   # make sure the usual instance exists (and sys.path is set)
    saved_repo = _repo
    saved_mods = {name: sys.modules.pop(name) for name in MODULES if name in sys.modules}
    _repo = None
    try:
        yield repo()
    finally:
        for name in MODULES:
            sys.modules.pop(name, None)
        sys.modules.update(saved_mods)
        _repo = saved_repo
