"""Hypothesis strategies for game descriptions (construction, not rejection).

Every random choice is a Hypothesis draw, so cases shrink and replay.
"""
from hypothesis import strategies as st

P1, P2, PR = "Player 1", "Player 2", "Probabilistic"
OWNERS = (P1, P2, PR)
NAMES = ("a", "b", "c", "d", "e", "f")
# action names that are prefixes / substrings of each other, empty, blank, or look like other tokens
TRICKY_NAMES = ("a", "aa", "ab", "", " ", "b", "None", "a,b", "Down", "down", "0",
                # characters that mean something to pattern matchers, formatters and parsers
                "a[1]", "[a]", "*", "a*", "?", "a b", " a", "a ", "%s", "{}", "1/4", "a\\b", "'", "#")



def _non_ascii_names():
    """Action names outside ASCII (the repository's own fixtures use Greek letters) - only where text files
    opened without an explicit encoding can carry them in this process."""
    import locale
    names = ("\u03b1", "\u00e9", "\u03b2\u2192")
    try:
        for x in names:
            x.encode(locale.getpreferredencoding(False))
        return names
    except (UnicodeError, LookupError):
        return ()


TRICKY_NAMES = TRICKY_NAMES + _non_ascii_names()
REWARD_POOL = (0, 0, 0, 1, 1, 2, 3, 5, 0.5, 7.25, 1000, 1e6, 1e-3, 2.5e7, -0.0, True, 1e20, 10 ** 25)
GENERIC_REWARDS = (0, 1, 2.5, 3.25, 5 / 7, 11 / 7, 13 / 7, 1.4142135623730951, 0.3, 4.75, 6.125, 17 / 3)


def _dyadic_probs(draw, k, denom):
    if k == 1:
        return [1]
    cuts = sorted(draw(st.lists(st.integers(1, denom - 1), min_size=k - 1, max_size=k - 1, unique=True)))
    parts = [b - a for a, b in zip([0] + cuts, cuts + [denom])]
    return [p / denom for p in parts]


def _float_probs(draw, k):
    if k == 1:
        return [1]
    w = [draw(st.floats(0.02, 1.0, allow_nan=False, allow_infinity=False)) for _ in range(k)]
    if draw(st.integers(0, 7)) == 0:
        w[draw(st.integers(0, k - 1))] = draw(st.sampled_from((1e-3, 1e-4, 3e-5)))   # a very unlikely branch
    tot = sum(w)
    return [x / tot for x in w]


@st.composite
def stopping_games(draw, min_inner=1, max_inner=8, dyadic=None, rewards=REWARD_POOL,
                   max_actions=4, dead_bias=True, max_finals=3, max_sinks=3,
                   acyclic=False, owners=None, dup_names=False, zero_edges=False, inner_finals=False):
    """A game that is stopping BY CONSTRUCTION.

    Abstract inner states 0..ni-1 carry a rank (their abstract index); every
    action of a player state goes to a higher-ranked inner state or an absorbing
    state; every probabilistic state has >= 1 such "progress" successor and any
    number of arbitrary successors (back edges, self-loops) unless `acyclic`.
    The highest-ranked state of any candidate end component has to leave it, so
    no end component exists besides the absorbing states.  Numbering is a random
    permutation with a low-ranked state as state 0.
    """
    ni = draw(st.integers(min_inner, max_inner))
    nf = draw(st.integers(1, max_finals))
    ns = draw(st.integers(0, max_sinks))
    n = ni + nf + ns
    if dyadic is None:
        dyadic = draw(st.booleans())
    denom = draw(st.sampled_from((4, 8, 16))) if dyadic else None
    inner = list(range(ni))
    finals_a = list(range(ni, ni + nf))
    sinks_a = list(range(ni + nf, n))
    absorbing = finals_a + sinks_a
    # "dead" inner states only lead to sinks / other dead states (needs a sink)
    dead = set()
    if dead_bias and ns and ni >= 2:
        ndead = draw(st.integers(0, min(3, ni - 1)))
        if ndead:
            dead = set(draw(st.lists(st.integers(1, ni - 1), min_size=ndead, max_size=ndead, unique=True)))
    init_a = draw(st.integers(0, min(ni - 1, 1)))
    if init_a in dead:
        init_a = 0
    # numbering
    others = [a for a in range(n) if a != init_a]
    perm = draw(st.permutations(list(range(1, n))))
    ids = {init_a: 0}
    for a, num in zip(others, perm):
        ids[a] = num
    players = [None] * n
    rew = [0] * n
    tl = [None] * n
    owner_pool = owners or (P1, P2, PR, PR)
    names = NAMES if draw(st.integers(0, 4)) else tuple(draw(st.permutations(TRICKY_NAMES)))[:6]
    if names is not NAMES and draw(st.booleans()):
        # the empty name on the first or second action of every player state (a falsy but legal label)
        rest = [x for x in names if x != ""][:5]
        rest.insert(draw(st.integers(0, 1)), "")
        names = tuple(rest)
    for a in inner:
        pl = draw(st.sampled_from(owner_pool))
        if a in dead:
            higher = [b for b in range(a + 1, ni) if b in dead] + sinks_a
            anywhere = [b for b in inner if b in dead] + sinks_a
        else:
            higher = list(range(a + 1, ni)) + absorbing
            anywhere = list(range(n))
        k = draw(st.integers(1, max_actions if pl != PR else max(max_actions, 4)))
        if pl == PR:
            succ = [draw(st.sampled_from(higher))]
            for _ in range(k - 1):
                if not acyclic and draw(st.integers(0, 3)):
                    succ.append(draw(st.sampled_from(anywhere)))
                else:
                    succ.append(draw(st.sampled_from(higher)))
            if k > 1:
                succ = list(draw(st.permutations(succ)))
            probs = _dyadic_probs(draw, k, denom) if dyadic else _float_probs(draw, k)
            tr = [(p, ids[t]) for p, t in zip(probs, succ)]
            if zero_edges and len(tr) < 5 and draw(st.integers(0, 5)) == 0:
                # a transition listed with probability exactly 0 (to any state, dead ones included)
                tr.insert(draw(st.integers(0, len(tr))), (draw(st.sampled_from((0, 0.0))), ids[draw(st.sampled_from(anywhere))]))
            if len(tr) < 5 and draw(st.integers(0, 5)) == 0:
                # an exact duplicate: one edge split into two IDENTICAL (probability, successor) tuples
                j = draw(st.integers(0, len(tr) - 1))
                half = (tr[j][0] / 2, tr[j][1])
                tr[j] = half
                tr.insert(draw(st.integers(0, len(tr))), half)
        else:
            succ = [draw(st.sampled_from(higher)) for _ in range(k)]
            tr = [(names[i], ids[t]) for i, t in enumerate(succ)]
            if dup_names and k >= 2 and draw(st.integers(0, 4)) == 0:
                # two transitions of one state carrying the SAME action label (legal, if unusual)
                i, j = draw(st.lists(st.integers(0, k - 1), min_size=2, max_size=2, unique=True))
                tr[j] = (tr[i][0], tr[j][1])
        players[ids[a]] = pl
        rew[ids[a]] = draw(st.sampled_from(rewards))
        tl[ids[a]] = tr
    for a in absorbing:
        pl = draw(st.sampled_from((PR, PR, P1, P2)))
        players[ids[a]] = pl
        rew[ids[a]] = 0
        if pl == PR:
            k = draw(st.integers(0, 7))
            tl[ids[a]] = [(0.5, ids[a]), (0.5, ids[a])] if k == 0 else [(True, ids[a])] if k == 1 else \
                [(1.0, ids[a])] if k == 2 else [(1, ids[a])]
        else:
            tl[ids[a]] = [("stay", ids[a])]
    finals = [ids[f] for f in finals_a]
    if len(finals) > 1:
        finals = list(draw(st.permutations(finals)))
    if inner_finals and ni >= 2 and draw(st.integers(0, 2)) == 0:
        # final states that are not absorbing: play (and reward collection) goes on after visiting them
        init_too = draw(st.integers(0, 3)) == 0          # the initial state itself may be a final state
        for a in draw(st.lists(st.integers(0, ni - 1), min_size=1, max_size=2, unique=True)):
            if ids[a] != 0 or init_too:
                finals.insert(draw(st.integers(0, len(finals))), ids[a])
    if draw(st.integers(0, 5)) == 0:
        # the same final state listed twice (or three times): a legal way to write the same set down
        for _ in range(draw(st.integers(1, 2))):
            finals.insert(draw(st.integers(0, len(finals))), draw(st.sampled_from(finals)))
    return dict(rewards=rew, players=players, transition_list=tl, final_states=finals)


@st.composite
def any_games(draw, min_states=3, max_states=8, max_actions=3, dyadic=True, max_pairs=256,
              rewards=REWARD_POOL):
    """An ARBITRARY well-formed game: any owners, any edges (player-only cycles,
    end components, unreachable parts), 1-3 final states that need not be
    absorbing.  The number of deterministic strategy pairs is capped by
    construction (not by rejection) so the enumeration oracle stays cheap."""
    n = draw(st.integers(min_states, max_states))
    denom = draw(st.sampled_from((4, 8, 16)))
    players, tl, rew = [], [], []
    pairs = 1
    for s in range(n):
        pl = draw(st.sampled_from(OWNERS))
        if pl == PR:
            k = draw(st.integers(1, 4))
            succ = [draw(st.integers(0, n - 1)) for _ in range(k)]
            probs = _dyadic_probs(draw, k, denom) if dyadic else _float_probs(draw, k)
            tr = [(p, t) for p, t in zip(probs, succ)]
        else:
            kmax = max_actions
            while kmax > 1 and pairs * kmax > max_pairs:
                kmax -= 1
            k = draw(st.integers(1, kmax))
            pairs *= k
            tr = [(NAMES[i], draw(st.integers(0, n - 1))) for i in range(k)]
        players.append(pl)
        tl.append(tr)
        rew.append(draw(st.sampled_from(rewards)))
    nf = draw(st.integers(1, min(3, n)))
    finals = draw(st.lists(st.integers(0, n - 1), min_size=nf, max_size=nf, unique=True))
    if draw(st.integers(0, 5)) == 0:
        for _ in range(draw(st.integers(1, 2))):
            finals.insert(draw(st.integers(0, len(finals))), draw(st.sampled_from(finals)))
    return dict(rewards=rew, players=players, transition_list=tl, final_states=finals)


def copy_game(game):
    """Deep copy preserving list/tuple structure AND sharing of list objects between states
    (cheaper than copy.deepcopy)."""
    memo = {}
    tl = []
    for l in game["transition_list"]:
        if isinstance(l, list):
            c = memo.get(id(l))
            if c is None:
                c = memo[id(l)] = list(l)
            tl.append(c)
        else:
            tl.append(l)
    return dict(rewards=list(game["rewards"]), players=list(game["players"]), transition_list=tl,
                final_states=list(game["final_states"]))


def apply_alias(game, alias):
    """Return a copy of `game` in which, for every pair (i, j) in alias, state j's transition list
    IS state i's list object (a legal way to write a description down in Python)."""
    g = copy_game(game)
    for i, j in alias or ():
        g["transition_list"][j] = g["transition_list"][i]
    return g


def tiny_reach_games():
    """Planted: states whose reachability value is positive but tiny (1e-9 .. 1e-6): not 'dead'.
    0: initial; 1: final; 2: sink; 3 = X (small chance to go on to Y), 4 = Y (small chance to win);
    5: a genuinely dead sibling so that pruning has something to remove."""
    for e1, e2 in ((1e-4, 1e-3), (1e-3, 1e-3), (1e-2, 1e-5), (1e-5, 1e-4), (0.5, 1e-6), (1e-3, 5e-4),
                   # live probability mass of a single state below 1e-9 (its value stays positive)
                   (2.0 ** -34, 0.5), (1e-12, 0.5), (1e-10, 1e-3),
                   # values below the machine epsilon, near the bottom of the float range, and subnormal live mass
                   (1e-9, 1e-9), (1e-160, 1e-150), (1e-200, 0.5), (1e-310, 0.5), (5e-324, 1.0)):
        for owner0 in (PR, P1, P2):
            for rx, ry in ((3, 5), (0, 7), (2.5, 0)):
                if owner0 == PR:
                    t0 = [(0.25, 1), (0.5, 3), (0.25, 5)]
                elif owner0 == P1:
                    t0 = [("a", 3), ("b", 5)]
                else:
                    t0 = [("a", 3), ("b", 1)]
                yield dict(rewards=[1, 0, 0, rx, ry, 4],
                           players=[owner0, PR, PR, PR, PR, PR],
                           transition_list=[t0, [(1, 1)], [(1, 2)], [(e1, 4), (1 - e1, 2)], [(e2, 1), (1 - e2, 2)],
                                            [(0.5, 5), (0.5, 2)]],
                           final_states=[1])
        # the same choice one step behind a coin, at a state numbered AFTER the tiny ones: a sweep in ascending
        # order hands it their fresh figures, so it reports the tiny value (state 0 above may still be at 0
        # when the sweeps stop).  Player 1: tiny vs dead (equal after rounding); Player 2: tiny vs certain.
        for owner6 in (P1, P2):
            for rx, ry in ((3, 5), (2.5, 0)):
                t6 = [("a", 3), ("b", 5)] if owner6 == P1 else [("a", 3), ("b", 1)]
                # the dead sibling 5 is a Player 2 state here: conditioning leaves its list alone, so it keeps
                # paying 40 if a transition into it wrongly survives
                yield dict(rewards=[1, 0, 0, rx, ry, 40, 2],
                           players=[PR, PR, PR, PR, PR, P2, owner6],
                           transition_list=[[(0.25, 1), (0.5, 6), (0.25, 5)], [(1, 1)], [(1, 2)],
                                            [(e1, 4), (1 - e1, 2)], [(e2, 1), (1 - e2, 2)], [("x", 2)], t6],
                           final_states=[1])


def dup_edge_games():
    """Planted: a probabilistic state lists the SAME (probability, successor) tuple twice (three times), next
    to a dead successor (5: loops, then the sink) in every position.  0: initial coin; 1: final; 2: sink;
    3: the state with the repeated entries; 4: a rewarded live state; 5: dead."""
    for p, k in ((0.25, 2), (0.125, 3), (0.2, 2)):
        live = [(p, 4)] * k
        rest = 1 - p * k
        for pos in range(k + 1):
            for extra in (None, (rest / 2, 1)):
                dead_p = rest if extra is None else rest / 2
                t3 = list(live)
                t3.insert(pos, (dead_p, 5))
                if extra is not None:
                    t3.append(extra)
                yield dict(rewards=[1, 0, 0, 2, 3, 7],
                           players=[PR, PR, PR, PR, PR, PR],
                           transition_list=[[(0.5, 3), (0.5, 1)], [(1, 1)], [(1, 2)], t3, [(0.5, 1), (0.5, 2)],
                                            [(0.5, 5), (0.5, 2)]],
                           final_states=[1])
    # the repeated entry is the state's own rewarded self-loop: losing or doubling its mass changes how long
    # (and whether) the play stays there
    for p, k in ((0.25, 2), (0.125, 3)):
        rest = 1 - p * k
        for pos in range(k + 1):
            t3 = [(p, 3)] * k + [(rest / 2, 1)]
            t3.insert(pos, (rest / 2, 5))
            yield dict(rewards=[1, 0, 0, 2, 3, 7],
                       players=[PR, PR, PR, PR, PR, PR],
                       transition_list=[[(0.5, 3), (0.5, 1)], [(1, 1)], [(1, 2)], t3, [(0.5, 1), (0.5, 2)],
                                        [(0.5, 5), (0.5, 2)]],
                       final_states=[1])


@st.composite
def twin_games(draw, renamed=False, **kw):
    """A stopping game in which a Player 1 state and a Player 2 state have EQUAL transition lists
    (and, for half of the cases, share the same list object): the twin of a player state `a` gets
    the other owner and a's successors, and is wired in below one of a's predecessors.
    renamed=True: the twin keeps a's OWNER and successor sequence but calls its actions differently."""
    g = draw(stopping_games(**kw))
    n = len(g["players"])
    cands = [s for s in range(n) if g["players"][s] in (P1, P2) and not all(t == s for _, t in g["transition_list"][s])]
    if not cands:
        return dict(game=g, alias=[])
    a = draw(st.sampled_from(cands))
    twin = n
    g = copy_game(g)
    if renamed:
        g["players"].append(g["players"][a])
        fresh = draw(st.permutations(["x", "y", "z", "w", "u", "v", "q"]))
        g["rewards"].append(draw(st.sampled_from(REWARD_POOL)))
        g["transition_list"].append([(fresh[i], t) for i, (_, t) in enumerate(g["transition_list"][a])])
    else:
        g["players"].append(P2 if g["players"][a] == P1 else P1)
        g["rewards"].append(draw(st.sampled_from(REWARD_POOL)))
        g["transition_list"].append(list(g["transition_list"][a]))
    preds = [s for s in range(n) if s != a and any(t == a for _, t in g["transition_list"][s])]
    if preds:
        l = draw(st.sampled_from(preds))
        lst = g["transition_list"][l]
        k = [i for i, (_, t) in enumerate(lst) if t == a][0]
        if g["players"][l] == PR:
            p = lst[k][0]
            lst[k] = (p / 2, a)
            lst.insert(draw(st.integers(0, len(lst))), (p / 2, twin))
        elif len(lst) < len(NAMES):
            used = {x for x, _ in lst}
            lst.insert(draw(st.integers(0, len(lst))), ([x for x in NAMES if x not in used][0], twin))
    alias = [[a, twin]] if not renamed and draw(st.booleans()) else []
    return dict(game=g, alias=alias)


def game_stats(game):
    n = len(game["players"])
    return dict(n=n, transitions=sum(len(l or []) for l in game["transition_list"]))


def coin(draw):
    """A balanced boolean (Hypothesis' own booleans() lean towards False in the generate phase)."""
    return draw(st.integers(0, 7)) % 2 == 1


def slow_choice_games(tier="quick"):
    """Planted: a root player state chooses between a slowly escaping rewarded self-loop (worth exactly
    1/eps after thousands of sweeps) and a one-step branch worth slightly less; both reach the final
    state with probability 1, so only the reward decides.  Exercises solves that need 10^3..10^5 sweeps
    (quick) and up to about 4 x 10^5 sweeps (thorough)."""
    tier = __import__("os").environ.get("VERIF_TIER_EFFECTIVE", tier)
    combos = [(1 / 256, 10.0, P1, False, True), (1 / 256, 0.05, P2, True, False),
              (1 / 2048, 10.0, P1, True, False), (1 / 2048, 0.05, P1, False, True), (1 / 2048, 10.0, P2, False, False),
              (1 / 8192, 10.0, P1, False, False)]      # the last one needs about 1.9 x 10^5 sweeps
    if tier != "quick":
        for eps in (1 / 256, 1 / 2048, 5e-4):
            for delta in (10.0, 0.05):
                for owner in (P1, P2):
                    for flip in (False, True):
                        for with_dead in (False, True):
                            combos.append((eps, delta, owner, flip, with_dead))
        combos += [(1 / 8192, 10.0, P1, False, False), (1 / 8192, 0.05, P2, True, True), (2.0 ** -14, 25.0, P1, True, False),
                   # about 2.5 x 10^6 and 1.4 x 10^7 sweeps (iteration caps of 10^6 / 10^7)
                   (1e-5, 1.0, P1, False, False), (2e-6, 1.0, P2, True, False)]
    for eps, delta, owner, flip, with_dead in combos:
        loop_val = 1 / eps
        acts = [("a", 3), ("b", 2)] if flip else [("a", 2), ("b", 3)]
        players = [owner, PR, PR, PR]
        tl = [acts, [(1, 1)], [(1 - eps, 2), (eps, 1)], [(1, 1)]]
        rew = [0, 0, 1, loop_val - delta]
        if with_dead:      # a dead sibling below the loop so that pruning renormalises it
            players += [PR]
            tl[2] = [(1 - eps, 2), (eps / 2, 1), (eps / 2, 4)]
            tl.append([(1, 4)])
            rew.append(0)
        yield dict(rewards=rew, players=players, transition_list=tl, final_states=[1])


def corridor_games():
    """Planted: a long deterministic corridor (d states in a row, each moving to the next with
    certainty) ending in the final state, below a root player state that can also take a 1/2 lottery.
    With ascending numbering a value travels one state per sweep, so states far from the goal sit at
    0 for hundreds of sweeps before they move.  Yields (game, exact values as Fractions, T)."""
    from fractions import Fraction as F
    for d in (60, 130, 200, 260, 520, 1030):
        for ascending in (True, False):
            for owner in (P1, P2):
                # 0 root, 1 final, 2 sink, 3 lottery, 4 middle Player 2 state, 5.. corridor
                n = 5 + d
                cor = list(range(5, 5 + d)) if ascending else list(range(4 + d, 4, -1))
                players = [owner, PR, PR, PR, P2] + [PR] * d
                tl = [None] * n
                tl[0] = [("a", cor[0]), ("b", 3), ("c", 4)]
                tl[1] = [(1, 1)]
                tl[2] = [(1, 2)]
                tl[3] = [(0.5, 1), (0.5, 2)]
                tl[4] = [("a", cor[0]), ("b", 3)]
                for i, s in enumerate(cor):
                    players[s] = (PR, P1, P2)[i % 3]
                    nxt = cor[i + 1] if i + 1 < d else 1
                    tl[s] = [(1, nxt)] if players[s] == PR else [("go", nxt)]
                vals = [F(1)] * n
                vals[2] = F(0)
                vals[3] = F(1, 2)
                vals[4] = F(1, 2)
                vals[0] = F(1) if owner == P1 else F(1, 2)
                game = dict(rewards=[0] * n, players=players, transition_list=tl, final_states=[1])
                yield game, vals, d + 2


def rewarded_corridor_games(lengths=(130, 360)):
    """Planted: a corridor of d states that each pay 1 and move on with certainty, numbered in the direction of
    travel (a sweep in ascending order then moves the goal's information back one state per sweep, and every
    state further away changes by exactly the same amount in every sweep) or against it; a trap door
    half-way (probability 1/200 into the sink) makes conditioning rescale one row."""
    for d in lengths:
        for ascending in (True, False):
            for trap in (False, True):
                n = 4 + d
                cor = list(range(4, 4 + d)) if ascending else list(range(3 + d, 3, -1))
                players = [P1, PR, PR, PR] + [None] * d
                tl = [None] * n
                tl[0] = [("a", cor[0]), ("b", 3)]
                tl[1] = [(1, 1)]
                tl[2] = [(1, 2)]
                tl[3] = [(0.5, 1), (0.5, 2)]
                rew = [0, 0, 0, 7] + [1] * d
                for i, s in enumerate(cor):
                    players[s] = (PR, P1, P2)[i % 3]
                    nxt = cor[i + 1] if i + 1 < d else 1
                    tl[s] = [(1, nxt)] if players[s] == PR else [("go", nxt)]
                if trap:
                    s = cor[d // 2 - (d // 2) % 3]          # a probabilistic corridor state
                    nxt = tl[s][0][1]
                    tl[s] = [(0.995, nxt), (0.005, 2)]
                yield dict(rewards=rew, players=players, transition_list=tl, final_states=[1])


def cut_corridor_game(d, owner_cycle=(PR, P2), ascending=True):
    """Planted: the root Player 1 state can go straight to the final state (value 1) or into a corridor of
    d probabilistic / Player 2 states that ends in a 1/2 lottery.  The corridor action is not
    reachability-optimal, so conditioning cuts it and the whole corridor becomes unreachable: clearing it
    is a cascade d states deep (no Player 1 state inside, which would stop it)."""
    n = 4 + d
    cor = list(range(4, 4 + d)) if ascending else list(range(3 + d, 3, -1))
    players = [P1, PR, PR, PR] + [None] * d
    tl = [None] * n
    tl[0] = [("a", 1), ("b", cor[0])]
    tl[1] = [(1, 1)]
    tl[2] = [(1, 2)]
    tl[3] = [(0.5, 1), (0.5, 2)]
    rew = [0, 0, 0, 1] + [0] * d
    for i, s in enumerate(cor):
        players[s] = owner_cycle[i % len(owner_cycle)]
        nxt = cor[i + 1] if i + 1 < d else 3
        tl[s] = [(1, nxt)] if players[s] == PR else [("go", nxt)]
        rew[s] = 1 if i % 7 == 0 else 0
    return dict(rewards=rew, players=players, transition_list=tl, final_states=[1])


def stale_zero_games():
    """Planted: a Player 1 state s (low index) whose actions lead, through corridors of 1-3 steps, to
    lotteries that reach the goal with masses around the 6th decimal (one rounds to 0.000001, the other
    to 0).  The reachability iteration stops before those masses travel back to s, so s itself reports
    exactly 0 while its successors report tiny positive values - and the reachability strategy of s is a
    strict subset of its actions.  The action that is NOT reachability-optimal carries the larger reward."""
    for m, k in ((8e-7, 1e-7), (6e-7, 4e-7), (9.9e-7, 4.9e-7), (5.1e-7, 0.0)):
        for hops in (1, 2, 3):
            for rich_first in (False, True):
                players = [P1, P1]
                tl = [None, None]
                rew = [0, 0]

                def corridor(mass, reward):
                    first = len(players)
                    for h in range(hops):
                        players.append(PR)
                        rew.append(reward if h == 0 else 0)
                        tl.append([(1, len(players))])          # next state (filled in order)
                    players.append(PR)                          # the lottery
                    rew.append(0)
                    tl.append(("lottery", mass))
                    return first
                a = corridor(m, 1)
                b = corridor(k, 50)
                goal, sink = len(players), len(players) + 1
                players += [PR, PR]
                rew += [0, 0]
                tl += [[(1, goal)], [(1, sink)]]
                for i, x in enumerate(tl):
                    if isinstance(x, tuple):
                        mass = x[1]
                        tl[i] = [(mass, goal), (1 - mass, sink)] if mass else [(1, sink)]
                tl[0] = [("win", goal), ("detour", 1)]
                tl[1] = [("b", b), ("a", a)] if rich_first else [("a", a), ("b", b)]
                yield dict(rewards=rew, players=players, transition_list=tl, final_states=[goal])
