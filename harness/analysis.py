"""Shared analysis of one (game, pruning mode) solve against the exact oracle.

Used by C01, C02, C04, C05, C06, C14.  Everything is computed lazily and cached
per Analysis object; an OracleError is reported as 'oracle cannot answer'
(inconclusive), never as a violation.
"""
import math
from fractions import Fraction as F

from . import exact
from .exact import P1, P2, PR, OracleError
from .sut import SkipSolve, solve

THETA = 1e-6            # the threshold StochasticGame.solve() fixes
T_MAX = 300             # generators for termination-sensitive checks keep T below this
T_MAX_COND = 600        # same for the conditioned game (renormalisation can slow absorption down a lot)


def t_limit(n):
    """Largest exact T explored for a game of n states: slow games are affordable when they are small
    (the worst case, a solve that really does not terminate, costs about 260 * T * n node updates, i.e. about 2e7)."""
    return max(T_MAX, 80000 // max(int(n), 1))


def sweep_bound(T, R):
    """Upper bound on the sweeps value iteration may need on a stopping game with maximal
    expected absorption time T and largest reward R (DESIGN 2.5): after 2T steps at most half
    of the mass is unabsorbed, so the error halves every 2T sweeps."""
    T = float(T)
    return int(4 * max(T, 1.0) * (45 + math.log2(1 + float(R) * max(T, 1.0)))) + 200


class GameFacts:
    """Exact facts about a game description (mode independent)."""

    def __init__(self, game, known=None, allow_slow=False):
        """known: optional dict(pstar=[Fractions], T=number) for planted games whose exact values are known
        by construction (too large for the rational solver); such games are stopping by construction."""
        self.game = game
        self.n = len(game["players"])
        self._c = {}
        self.known = known
        self.allow_slow = allow_slow          # planted very slow games: explored whatever their T
        if known:
            self._c["pstar"] = ("ok", list(known["pstar"]))
            self._c["T"] = ("ok", F(known["T"]))
            self._c["stopping"] = ("ok", True)

    def _get(self, key, fn):
        if key not in self._c:
            try:
                self._c[key] = ("ok", fn())
            except OracleError as e:
                self._c[key] = ("err", e)
        kind, val = self._c[key]
        if kind == "err":
            raise val
        return val

    @property
    def stopping(self):
        return self._get("stopping", lambda: exact.is_stopping(self.game))

    @property
    def pstar(self):
        def f():
            if self.stopping:
                return exact.reach_values_stopping(self.game)
            return exact.reach_values(self.game)
        return self._get("pstar", f)

    @property
    def T(self):
        return self._get("T", lambda: exact.max_expected_steps(self.game))

    @property
    def too_slow(self):
        """True if the exact maximal expected absorption time exceeds what is explored for this size."""
        if self.known or self.allow_slow:
            return False
        return self.T > t_limit(self.n)

    @property
    def slow(self):
        """True if T > 300: used by checks that are not about convergence (histories, batches, reports) to keep
        their cases cheap."""
        return self.T > T_MAX

    @property
    def R(self):
        return max([float(r) for r in self.game["rewards"]] + [0.0])

    @property
    def budget(self):
        return sweep_bound(self.T, self.R)

    @property
    def has_cycle(self):
        return self._get("cyc", lambda: exact.has_cycle(self.game))

    @property
    def back(self):
        return self._get("back", lambda: exact.backward_reachable(self.game))


class Solved:
    """One solve of `facts.game` in mode `prune`, plus the conditioned game rebuilt from the
    REPORTED reachability strategies and probabilities (C02's definition)."""

    def __init__(self, facts, prune, sweeps="derived"):
        self.facts = facts
        self.prune = prune
        self.iterated_T = None            # exact T of the game the reward loop actually iterates
        self.iterated_not_stopping = False
        cb = None
        if sweeps == "derived":
            sweeps = facts.budget
            cb = self._reward_phase_budget
        self.outcome = solve(facts.game, prune, sweeps=sweeps, on_reward_phase=cb)
        self._c = {}
        if self.outcome.kind == "ok":
            (self.final, self.reach_strat, self.rew, self.prob, self.it_reach, self.it_rew,
             self.prob_min_rew, self.rew_min_reach) = self.outcome.result

    def _reward_phase_budget(self, state_list):
        """Sweeps allowed for the total-reward loop, derived from the exact maximal expected
        absorption time of the game that loop iterates (the solver's own post-conditioning
        lists).  If that game is not stopping although the input is, the bound for T_MAX is
        used (exceeding it is then a termination failure, see C06)."""
        g = dict(rewards=[s.reward for s in state_list], players=[s.player for s in state_list],
                 transition_list=[list(s.next_states) for s in state_list],
                 final_states=list(self.facts.game["final_states"]))
        try:
            T = exact.max_expected_steps(g)
        except OracleError:
            # the input game is stopping, so is its conditioned game (DESIGN 3/C02); a reward loop over a
            # game with infinite expected absorption time cannot be bounded and is reported at once
            self.iterated_not_stopping = True
            from .budget import BudgetExceeded
            raise BudgetExceeded("the game the total-reward loop iterates is not stopping although the input game "
                                 "is (some play is never absorbed), so the loop has no derived bound")
        self.iterated_T = T
        lim = 2 * t_limit(len(state_list))
        if T > lim and not self.facts.allow_slow:
            raise SkipSolve(f"conditioned game has T={float(T):.0f} > {lim}")
        return sweep_bound(T, self.facts.R)

    def _get(self, key, fn):
        if key not in self._c:
            try:
                self._c[key] = ("ok", fn())
            except OracleError as e:
                self._c[key] = ("err", e)
        kind, val = self._c[key]
        if kind == "err":
            raise val
        return val

    @property
    def cgame(self):
        return self._get("cg", lambda: exact.conditioned_game(self.facts.game, self.reach_strat, self.prob,
                                                              self.prune))

    @property
    def scope(self):
        """States the reward claims are about: reachable from 0 in the conditioned game when
        pruning, every state otherwise."""
        if not self.prune:
            return set(range(self.facts.n))
        return self._get("scope", lambda: exact.forward_reachable(self.cgame, 0))

    @property
    def rstar(self):
        return self._get("rstar", lambda: exact.total_reward_values(self.cgame))

    @property
    def Tc(self):
        return self._get("Tc", lambda: exact.max_expected_steps(self.cgame))

    @property
    def removed(self):
        """Number of transitions conditioning removed."""
        g = self.facts.game
        return sum(len(a) - len(b) for a, b in zip(g["transition_list"], self.cgame["transition_list"]))


def tol(theta, T, vstar=0):
    return theta * (float(T) + 1) + 1e-9 * (1 + abs(float(vstar)))


# ----------------------------------------------------------------------------- float Bellman operators (harness's own)
def bellman_reach(game, v):
    out = []
    finals = set(game["final_states"])
    for s, (pl, lst) in enumerate(zip(game["players"], game["transition_list"])):
        if s in finals:
            out.append(1.0)
        elif not lst:
            out.append(0.0)
        elif pl == PR:
            out.append(sum(p * v[t] for p, t in lst))
        elif pl == P1:
            out.append(max(v[t] for _, t in lst))
        else:
            out.append(min(v[t] for _, t in lst))
    return out


def bellman_reward(game, v):
    """Total-reward operator of a (conditioned) game; successor-less states are worth 0."""
    out = []
    for s, (pl, lst) in enumerate(zip(game["players"], game["transition_list"])):
        if not lst:
            out.append(0.0)
        elif pl == PR:
            out.append(game["rewards"][s] + sum(float(p) * v[t] for p, t in lst))
        elif pl == P1:
            out.append(game["rewards"][s] + max(v[t] for _, t in lst))
        else:
            out.append(game["rewards"][s] + min(v[t] for _, t in lst))
    return out


def jacobi_reach(game, sweeps=None, eps=None, vmax_sweeps=200000):
    """Independent Jacobi value iteration from below; stop after `sweeps` sweeps or at change <= eps."""
    n = len(game["players"])
    finals = set(game["final_states"])
    v = [1.0 if s in finals else 0.0 for s in range(n)]
    k = 0
    while True:
        if sweeps is not None and k >= sweeps:
            return v, k
        w = bellman_reach(game, v)
        k += 1
        d = max(abs(a - b) for a, b in zip(v, w))
        v = w
        if eps is not None and d <= eps:
            return v, k
        if k >= vmax_sweeps:
            return v, k


import contextlib


@contextlib.contextmanager
def budgeted(facts, extra_modules=()):
    """Run arbitrary repository calls (several solves, batch runs) on `facts.game` under the
    derived sweep budgets: reach loops get the bound for the input game's exact T, each reward
    loop the bound for the exact T of the game it iterates.  Raises BudgetExceeded / SkipSolve."""
    from .budget import sweep_budget
    from .load import repo
    helper = Solved.__new__(Solved)
    helper.facts, helper.iterated_T, helper.iterated_not_stopping = facts, None, False
    with sweep_budget(repo().tad, facts.budget, facts.n, extra_modules=extra_modules,
                      on_reward_phase=helper._reward_phase_budget) as shim:
        shim.helper = helper
        yield shim


def reward_phase_budget_generic(state_list):
    """on_reward_phase callback that needs no GameFacts: bound from the exact T of the iterated game."""
    g = dict(rewards=[s.reward for s in state_list], players=[s.player for s in state_list],
             transition_list=[list(s.next_states) for s in state_list], final_states=[])
    R = max([float(s.reward) for s in state_list] + [0.0])
    try:
        T = exact.max_expected_steps(g)
    except OracleError:
        from .budget import BudgetExceeded
        raise BudgetExceeded("the game the total-reward loop iterates is not stopping (some play is never absorbed)")
    lim = 2 * t_limit(len(state_list))
    if T > lim:
        raise SkipSolve(f"conditioned game has T={float(T):.0f} > {lim}")
    return sweep_bound(T, R)


@contextlib.contextmanager
def budgeted_many(facts_list, extra_modules=()):
    """Like budgeted() for a batch over several games: reach loops get the largest of the games' bounds."""
    from .budget import sweep_budget
    from .load import repo
    n_sweeps = max([f.budget for f in facts_list] + [sweep_bound(1, 1)])
    n_states = max([f.n for f in facts_list] + [1])
    with sweep_budget(repo().tad, n_sweeps, n_states, extra_modules=extra_modules,
                      on_reward_phase=reward_phase_budget_generic) as shim:
        yield shim
