"""Thin wrappers that run the code under test and classify what happened."""
import traceback

from .budget import BudgetExceeded, sweep_budget
from .games import copy_game
from .load import repo

NO_SOLUTION = "no solution"


class Outcome:
    """kind: 'ok' (result = 8-tuple), 'nosol' (the solver's no-solution ValueError),
    'valueerror' (any other ValueError), 'exception' (anything else), 'budget'."""
    __slots__ = ("kind", "result", "exc", "where", "sweeps")

    def __init__(self, kind, result=None, exc=None, where=None, sweeps=None):
        self.kind, self.result, self.exc, self.where, self.sweeps = kind, result, exc, where, sweeps

    def brief(self):
        if self.kind == "ok":
            return "ok"
        if self.kind == "budget":
            return f"budget exceeded ({self.exc})"
        return f"{self.kind}: {type(self.exc).__name__}: {str(self.exc)[:200]} @ {self.where}"


def innermost_repo_frame(exc):
    r = repo()
    where = None
    for fr in traceback.extract_tb(exc.__traceback__):
        if fr.filename.startswith(r.path):
            where = f"{fr.filename[len(r.path) + 1:]}:{fr.name}"
    return where


def classify_exception(e):
    where = innermost_repo_frame(e)
    if isinstance(e, ValueError):
        if NO_SOLUTION in str(e).lower():
            return Outcome("nosol", exc=e, where=where)
        return Outcome("valueerror", exc=e, where=where)
    return Outcome("exception", exc=e, where=where)


class SkipSolve(BaseException):
    """Raised by an on_reward_phase callback: the case is outside what the check explores."""


NOTES = set()          # class labels collected while a case is decided (runner.decide merges them into the verdict)


def through_file(game):
    """The game written down as the text of an input file and read back by the repository's own reader
    (conditionalrewards.read_dict_from_file), the way every game reaches the solver from the command line.
    Returns None when the description cannot take that road unchanged (shared list objects, or values
    whose repr does not denote them)."""
    import os
    from . import boards
    tl = game.get("transition_list")
    if not isinstance(tl, list):
        return None
    inner = [id(l) for l in tl if isinstance(l, list)]
    if len(set(inner)) < len(inner):
        return None
    loaded = file_roundtrip({"g": game})
    return None if loaded is None else loaded["g"]


def file_roundtrip(games_dict):
    """A dict of games as the text of an input file, read back by the repository's reader; None when the
    text would not denote the dict (values without a literal repr, shared objects are the caller's business)."""
    import os
    from . import boards
    try:
        text = repr(games_dict)
        if "inf" in text or "nan" in text:
            return None
        back = eval(text, {"__builtins__": {}}, {})
        if back != games_dict or repr(back) != text:
            return None
    except Exception:
        return None
    path = os.path.join(boards.scratch_dir(), "inputs", "__via_file__.py")
    try:
        with open(path, "w") as f:
            f.write(text)
    except UnicodeError:
        return None
    try:
        return repo().conditionalrewards.read_dict_from_file(path)
    finally:
        os.remove(path)


def wants_file_route(game):
    import hashlib
    return hashlib.sha1(repr(game).encode()).digest()[0] % 4 == 0


def wants_object_history(game):
    import hashlib
    d = hashlib.sha1(repr(game).encode()).digest()
    return d[0] % 4 != 0 and d[1] % 6 == 0


def _one_solve(r, obj_or_factory, sweeps, n, on_reward_phase):
    """One call of solve() under a sweep budget; obj_or_factory is an object or builds one (inside the budget)."""
    with sweep_budget(r.tad, sweeps, n, on_reward_phase=on_reward_phase) as shim:
        try:
            obj = obj_or_factory() if callable(obj_or_factory) else obj_or_factory
            res = obj.solve()
            return Outcome("ok", result=res, sweeps=shim.sweeps), obj
        except BudgetExceeded as e:
            return Outcome("budget", exc=e, sweeps=shim.sweeps), None
        except SkipSolve as e:
            return Outcome("skipped", exc=e, sweeps=shim.sweeps), None
        except RecursionError as e:
            return Outcome("exception", exc=e, where=innermost_repo_frame(e)), None
        except Exception as e:
            o = classify_exception(e)
            o.sweeps = shim.sweeps
            return o, (obj if "obj" in locals() else None)


def solve(game, prune, sweeps=None, copy=True, on_reward_phase=None, via_file=None):
    """StochasticGame(**game, prune_states=prune).solve() on a copy, under a sweep budget.  A quarter of the
    games (chosen by a digest of the description) reach the solver through an input file and the repository's
    reader instead of a plain copy.  About an eighth are solved as the SECOND solve of one object: the object is
    built in the other pruning mode and solved, its prune_states attribute is flipped, and it is solved again
    (what is examined is that second result; when the first solve does not end by itself the plain road is used)."""
    r = repo()
    g = copy_game(game) if copy else game
    if copy and (via_file or (via_file is None and wants_file_route(game))):
        try:
            loaded = through_file(game)
        except Exception as e:
            NOTES.add("input_file_route")
            o = classify_exception(e)
            o.sweeps = 0
            return o
        if loaded is not None:
            g = loaded
            NOTES.add("input_file_route")
    n = len(game["players"]) if hasattr(game.get("players"), "__len__") else 1
    if copy and via_file is None and wants_object_history(game):
        g2 = copy_game(g)
        first, obj = _one_solve(r, lambda: r.tad.StochasticGame(prune_states=not prune, **g2), sweeps, n, on_reward_phase)
        if obj is not None and first.kind in ("ok", "nosol") and hasattr(obj, "prune_states"):
            obj.prune_states = prune
            NOTES.add("second_solve_of_one_object")
            o, _ = _one_solve(r, obj, sweeps, n, on_reward_phase)
            return o
    o, _ = _one_solve(r, lambda: r.tad.StochasticGame(prune_states=prune, **g), sweeps, n, on_reward_phase)
    return o


def call(fn, *a, **k):
    """Run a repo function; ('ok', value) or ('exc', exception)."""
    try:
        return "ok", fn(*a, **k)
    except BudgetExceeded:
        raise
    except Exception as e:
        return "exc", e


# ----------------------------------------------------------------------------- batch entries
# The properties say that a failing game's entry "carries the error message" and that its unpruned entry "is
# marked not solved"; they do not fix the wording.  So: an entry is SOLVED iff it carries results; a failing entry
# carries no results and a message that contains the solver's error text.
def entry_solved(e):
    return isinstance(e, dict) and e.get("rewards") is not None and e.get("probabilities") is not None


def entry_failed_with(e, error_text=None):
    if not isinstance(e, dict) or entry_solved(e) or not isinstance(e.get("msg"), str) or not e["msg"].strip():
        return False
    return error_text is None or error_text.lower() in e["msg"].lower()


def entry_not_solved(e):
    return isinstance(e, dict) and not entry_solved(e) and isinstance(e.get("msg"), str)
