"""REF: exact rational reference solvers for turn-based stochastic games.

Independent of tad.py in algorithm and in arithmetic: fractions.Fraction
throughout (input floats are converted with Fraction(x), which is exact), Markov
chains are evaluated by Gaussian elimination, games by strategy enumeration
(arbitrary games) or by Hoffman-Karp strategy iteration (stopping games, where
the Bellman operator has a unique fixed point).  No value iteration anywhere.

A game is the repository's description: dict(rewards, players, transition_list,
final_states).  Transition lists may be empty here (a state worth 0), which is
how conditioned games are represented.
"""
from fractions import Fraction as F
from itertools import product

P1, P2, PR = "Player 1", "Player 2", "Probabilistic"


class OracleError(Exception):
    """The oracle cannot answer (infinite value, not stopping, too large)."""


# ----------------------------------------------------------------------------- linear algebra
def solve_linear(A, b):
    """Solve A x = b over Fractions (A square, non-singular)."""
    n = len(A)
    M = [row[:] + [b[i]] for i, row in enumerate(A)]
    for c in range(n):
        p = None
        for r in range(c, n):
            if M[r][c] != 0:
                p = r
                break
        if p is None:
            raise OracleError("singular system")
        if p != c:
            M[c], M[p] = M[p], M[c]
        piv = M[c][c]
        if piv != 1:
            inv = 1 / piv
            M[c] = [x * inv if x != 0 else x for x in M[c]]
        rowc = M[c]
        for r in range(n):
            if r != c:
                f = M[r][c]
                if f != 0:
                    M[r] = [x - f * y if y != 0 else x for x, y in zip(M[r], rowc)]
    return [M[i][n] for i in range(n)]


# ----------------------------------------------------------------------------- game access
class G:
    """Normalised exact view of a game description."""

    def __init__(self, game):
        self.n = len(game["players"])
        self.owner = list(game["players"])
        self.rew = [F(r) for r in game["rewards"]]
        self.finals = set(game["final_states"])
        self.tr = []
        for s in range(self.n):
            lst = game["transition_list"][s] or []
            if self.owner[s] == PR:
                self.tr.append([(F(p), t) for p, t in lst])
            else:
                self.tr.append([(a, t) for a, t in lst])
        self.players_states = [s for s in range(self.n) if self.owner[s] != PR]

    def chain(self, choice):
        """Markov chain {succ: prob} per state under choice {player state: transition index}."""
        ch = []
        for s in range(self.n):
            d = {}
            lst = self.tr[s]
            if not lst:
                pass
            elif self.owner[s] == PR:
                for p, t in lst:
                    if p != 0:          # a transition listed with probability 0 is no transition of the chain
                        d[t] = d.get(t, 0) + p
            else:
                d[lst[choice[s]][1]] = F(1)
            ch.append(d)
        return ch


def _backward(ch, targets):
    """States that can reach `targets` in the chain's graph."""
    n = len(ch)
    pred = [[] for _ in range(n)]
    for s in range(n):
        for t in ch[s]:
            pred[t].append(s)
    seen = set(targets)
    stack = list(targets)
    while stack:
        t = stack.pop()
        for s in pred[t]:
            if s not in seen:
                seen.add(s)
                stack.append(s)
    return seen


def chain_reach(ch, finals):
    """Exact probability of ever visiting `finals`, per state."""
    n = len(ch)
    can = _backward(ch, finals)
    unk = [s for s in range(n) if s in can and s not in finals]
    idx = {s: i for i, s in enumerate(unk)}
    A = [[F(0)] * len(unk) for _ in unk]
    b = [F(0)] * len(unk)
    for s in unk:
        i = idx[s]
        A[i][i] += 1
        for t, p in ch[s].items():
            if t in finals:
                b[i] += p
            elif t in idx:
                A[i][idx[t]] -= p
    x = solve_linear(A, b) if unk else []
    v = [F(0)] * n
    for f in finals:
        v[f] = F(1)
    for s in unk:
        v[s] = x[idx[s]]
    return v


def chain_total(ch, rew):
    """Exact expected total reward per state; states with no successor are worth 0.

    Z = states from which only zero-reward states (or successor-less states) are
    reachable: worth 0.  Every other state must reach Z with probability 1,
    otherwise the value is infinite and OracleError is raised.
    """
    n = len(ch)
    pos = [s for s in range(n) if ch[s] and rew[s] != 0]
    reach_pos = _backward(ch, pos)          # can still collect something
    Z = set(range(n)) - reach_pos
    if len(_backward(ch, Z)) != n:
        raise OracleError("infinite expected total reward")
    unk = sorted(reach_pos)
    idx = {s: i for i, s in enumerate(unk)}
    A = [[F(0)] * len(unk) for _ in unk]
    b = [rew[s] if ch[s] else F(0) for s in unk]
    for s in unk:
        i = idx[s]
        A[i][i] += 1
        for t, p in ch[s].items():
            if t in idx:
                A[i][idx[t]] -= p
    x = solve_linear(A, b) if unk else []
    v = [F(0)] * n
    for s in unk:
        v[s] = x[idx[s]]
    return v


# ----------------------------------------------------------------------------- brute force
def n_strategy_pairs(game, allowed=None):
    k = 1
    for s, (pl, lst) in enumerate(zip(game["players"], game["transition_list"])):
        if pl != PR and lst:
            k *= len(allowed[s]) if allowed and s in allowed else len(lst)
    return k


def _strategies(g, owner, allowed=None):
    ss = [s for s in range(g.n) if g.owner[s] == owner and g.tr[s]]
    rng = [(allowed[s] if allowed and s in allowed else range(len(g.tr[s]))) for s in ss]
    for c in product(*rng):
        yield dict(zip(ss, c))


def brute(game, objective, dir1=max, dir2=min, allowed=None, rew=None):
    """Value by enumeration of memoryless deterministic strategy pairs.

    objective: 'reach' | 'total'.  Sufficient for turn-based stochastic
    reachability games, and for total reward on stopping games.
    """
    g = G(game)
    rew = g.rew if rew is None else rew
    best = None
    for s1 in _strategies(g, P1, allowed):
        worst = None
        for s2 in _strategies(g, P2, allowed):
            ch = g.chain({**s1, **s2})
            v = chain_reach(ch, g.finals) if objective == "reach" else chain_total(ch, rew)
            worst = v if worst is None else [dir2(a, b) for a, b in zip(worst, v)]
        best = worst if best is None else [dir1(a, b) for a, b in zip(best, worst)]
    return best


def reach_values(game):
    """Exact max-min reachability values of an ARBITRARY game (enumeration)."""
    return brute(game, "reach")


# ----------------------------------------------------------------------------- strategy iteration
def strategy_iteration(game, objective, dir1="max", dir2="min", allowed=None, rew=None):
    """Hoffman-Karp for STOPPING games (unique Bellman fixed point).

    Outer loop improves Player 1 against Player 2's exact best response (inner
    policy iteration).  Only strict exact improvements switch, so it terminates.
    Returns (values, choice).
    """
    g = G(game)
    rew = g.rew if rew is None else rew
    better = {"max": lambda a, b: a > b, "min": lambda a, b: a < b}
    b1, b2 = better[dir1], better[dir2]

    def opts(s):
        return list(allowed[s]) if allowed and s in allowed else list(range(len(g.tr[s])))

    choice = {s: opts(s)[0] for s in g.players_states if g.tr[s]}

    def evaluate():
        ch = g.chain(choice)
        return chain_reach(ch, g.finals) if objective == "reach" else chain_total(ch, rew)

    s1 = [s for s in g.players_states if g.owner[s] == P1 and g.tr[s]]
    s2 = [s for s in g.players_states if g.owner[s] == P2 and g.tr[s]]
    guard = 0
    while True:
        while True:
            guard += 1
            if guard > 10000:
                raise OracleError("strategy iteration did not converge")
            v = evaluate()
            changed = False
            for s in s2:
                cur = v[g.tr[s][choice[s]][1]]
                for k in opts(s):
                    if b2(v[g.tr[s][k][1]], cur):
                        cur = v[g.tr[s][k][1]]
                        choice[s] = k
                        changed = True
            if not changed:
                break
        changed = False
        for s in s1:
            cur = v[g.tr[s][choice[s]][1]]
            for k in opts(s):
                if b1(v[g.tr[s][k][1]], cur):
                    cur = v[g.tr[s][k][1]]
                    choice[s] = k
                    changed = True
        if not changed:
            return v, choice


def reach_values_stopping(game):
    return strategy_iteration(game, "reach")[0]


def total_reward_values(game, allowed=None):
    return strategy_iteration(game, "total", allowed=allowed)[0]


def max_expected_steps(game):
    """T: exact max over both players of the expected number of steps before absorption,
    maximised over states.  Absorbing states (all transitions to itself) and
    successor-less states take 0 steps."""
    g = G(game)
    rew = []
    for s in range(g.n):
        absorbing = all(t == s for _, t in g.tr[s])
        rew.append(F(0) if absorbing else F(1))
    v, _ = strategy_iteration(game, "total", "max", "max", rew=rew)
    return max(v) if v else F(0)


# ----------------------------------------------------------------------------- structure
def _sccs(nodes, succ):
    """Tarjan, iterative.  nodes: iterable; succ(s) -> iterable of nodes (restricted by caller)."""
    index = {}
    low = {}
    onstack = set()
    stack = []
    out = []
    counter = [0]
    for root in nodes:
        if root in index:
            continue
        work = [(root, iter(succ(root)))]
        index[root] = low[root] = counter[0]
        counter[0] += 1
        stack.append(root)
        onstack.add(root)
        while work:
            v, it = work[-1]
            advanced = False
            for w in it:
                if w not in index:
                    index[w] = low[w] = counter[0]
                    counter[0] += 1
                    stack.append(w)
                    onstack.add(w)
                    work.append((w, iter(succ(w))))
                    advanced = True
                    break
                elif w in onstack:
                    low[v] = min(low[v], index[w])
            if advanced:
                continue
            work.pop()
            if work:
                u = work[-1][0]
                low[u] = min(low[u], low[v])
            if low[v] == index[v]:
                comp = []
                while True:
                    w = stack.pop()
                    onstack.discard(w)
                    comp.append(w)
                    if w == v:
                        break
                out.append(comp)
    return out


def end_components(game):
    """Maximal end components of the graph in which both players cooperate.

    Returns a list of sets of states.  A set C is an end component if every
    probabilistic state in C has all successors in C, every player state in C has
    some successor in C, and C is strongly connected using those transitions.
    """
    n = len(game["players"])
    owner = game["players"]
    tl = [[t for l_, t in (lst or []) if not (owner[s] == PR and l_ == 0)] for s, lst in enumerate(game["transition_list"])]
    result = []
    work = [set(s for s in range(n) if tl[s])]
    while work:
        cand = work.pop()
        # remove states that cannot stay inside
        changed = True
        while changed:
            changed = False
            for s in list(cand):
                if owner[s] == PR:
                    ok = all(t in cand for t in tl[s])
                else:
                    ok = any(t in cand for t in tl[s])
                if not ok:
                    cand.discard(s)
                    changed = True
        if not cand:
            continue

        def succ(s, cand=cand):
            return [t for t in tl[s] if t in cand]
        comps = _sccs(sorted(cand), succ)
        if len(comps) == 1 and len(comps[0]) == len(cand):
            c = comps[0]
            if len(c) > 1 or c[0] in succ(c[0]):
                result.append(set(c))
            continue
        for c in comps:
            if len(c) > 1 or c[0] in succ(c[0]):
                work.append(set(c))
    return result


def is_absorbing(game, s):
    lst = game["transition_list"][s] or []
    return bool(lst) and all(t == s for _, t in lst)


def is_stopping(game):
    """Every play is absorbed w.p.1 in zero-reward absorbing states; finals absorbing."""
    for f in game["final_states"]:
        if not is_absorbing(game, f):
            return False
    for c in end_components(game):
        if len(c) != 1:
            return False
        (s,) = c
        if not is_absorbing(game, s) or game["rewards"][s] != 0:
            return False
    return True


def has_cycle(game):
    """A directed cycle through a non-absorbing state."""
    n = len(game["players"])
    tl = [[t for _, t in (lst or [])] for lst in game["transition_list"]]
    comps = _sccs(range(n), lambda s: tl[s])
    for c in comps:
        if len(c) > 1:
            return True
        s = c[0]
        if s in tl[s] and not all(t == s for t in tl[s]):
            return True
    return False


def depends_on_cycle(game, start):
    """Does the part of the game reachable from `start` contain a directed cycle through a non-absorbing
    state?  If not, value iteration from below computes start's values exactly (after at most depth sweeps)."""
    part = forward_reachable(game, start)
    tl = {s: [t for _, t in (game["transition_list"][s] or [])] for s in part}
    for c in _sccs(sorted(part), lambda s: tl[s]):
        if len(c) > 1:
            return True
        s = c[0]
        if s in tl[s] and not all(t == s for t in tl[s]):
            return True
    return False


def forward_reachable(game, start=0):
    seen = {start}
    stack = [start]
    while stack:
        s = stack.pop()
        for _, t in (game["transition_list"][s] or []):
            if t not in seen:
                seen.add(t)
                stack.append(t)
    return seen


def backward_reachable(game):
    """States from which some final state is reachable along transitions (finals included)."""
    n = len(game["players"])
    pred = [[] for _ in range(n)]
    for s, lst in enumerate(game["transition_list"]):
        for _, t in (lst or []):
            pred[t].append(s)
    seen = set(game["final_states"])
    stack = list(seen)
    while stack:
        t = stack.pop()
        for s in pred[t]:
            if s not in seen:
                seen.add(s)
                stack.append(s)
    return seen


# ----------------------------------------------------------------------------- conditioned game
def conditioned_game(game, reach_strategies, probabilities, prune):
    """The conditioned game exactly as property C02 defines it, from REPORTED outputs.

    Player 1 lists are filtered to the reported reachability actions; if `prune`,
    Player 1 / probabilistic transitions into states reported with probability 0
    are deleted and the surviving probabilities divided by their sum (Fractions);
    Player 2 is untouched.  Lists may become empty (state worth 0).
    """
    n = len(game["players"])
    tl = []
    for s in range(n):
        pl = game["players"][s]
        lst = list(game["transition_list"][s])
        if pl == P1:
            keep = reach_strategies[s]
            lst = [t for t in lst if t[0] in keep]
        if prune and pl in (P1, PR):
            live = [t for t in lst if probabilities[t[1]] != 0]
            if pl == PR and live and len(live) < len(lst):
                tot = sum(F(t[0]) for t in live)
                # all surviving transitions carry probability 0: nothing survives (the state is worth 0)
                live = [(F(t[0]) / tot, t[1]) for t in live] if tot != 0 else []
            lst = live
        tl.append(lst)
    return dict(rewards=list(game["rewards"]), players=list(game["players"]),
                transition_list=tl, final_states=list(game["final_states"]))
