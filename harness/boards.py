"""Roborta boards: strategies and the bridge to the repository's generator."""
import os
import shutil
import tempfile

from hypothesis import strategies as st

from .load import repo

_scratch = None


def scratch_dir():
    """A per-process scratch directory with inputs/ and outputs/ (removed at exit)."""
    global _scratch
    if _scratch is None or not os.path.isdir(_scratch) or _scratch_pid != os.getpid():
        _make_scratch()
    return _scratch


def _make_scratch():
    global _scratch, _scratch_pid
    import atexit
    _scratch = tempfile.mkdtemp(prefix="condrew_verif_")
    _scratch_pid = os.getpid()
    os.makedirs(os.path.join(_scratch, "inputs"))
    os.makedirs(os.path.join(_scratch, "outputs"))
    path, pid = _scratch, _scratch_pid

    def cleanup():
        if os.getpid() == pid:
            shutil.rmtree(path, ignore_errors=True)
    atexit.register(cleanup)


_scratch_pid = None


def drop_scratch():
    """Remove this process's scratch directory now (a later scratch_dir() call makes a new one)."""
    global _scratch
    if _scratch is not None and _scratch_pid == os.getpid():
        shutil.rmtree(_scratch, ignore_errors=True)
        _scratch = None


def clean_scratch():
    d = scratch_dir()
    for sub in ("inputs", "outputs"):
        p = os.path.join(d, sub)
        for name in os.listdir(p):
            os.remove(os.path.join(p, name))
    return d


def games_from_board(board):
    """board = dict(moves, rewards, loose, tb, rb, lb) -> the dict read back from the written file."""
    r = repo()
    d = clean_scratch()
    path = os.path.join(d, "inputs", "board.py")
    length = len(board["moves"])
    width = len(board["moves"][0])
    r.roberta_generator.write_robots(path, length, width, board["moves"], board["rewards"], board["loose"],
                                     board["tb"], board["rb"], board["lb"])
    try:
        return r.conditionalrewards.read_dict_from_file(path)
    finally:
        os.remove(path)


PROBS = st.one_of(st.sampled_from((0.1, 0.25, 0.5, 0.37, 0.9, 0.01, 0.99)),
                  st.floats(0.001, 0.999, allow_nan=False))


@st.composite
def boards(draw, max_len=4, max_wid=4, max_tiles=None, max_reward=6, down_only=None):
    length = draw(st.integers(1, max_len))
    wmax = max_wid if not max_tiles else max(1, min(max_wid, max_tiles // length))
    width = draw(st.integers(1, wmax))
    if down_only is None:
        down_only = draw(st.booleans())
    arrows = (0, 1, 2, 3) if down_only else (0, 1, 2)
    moves = [[draw(st.sampled_from(arrows)) for _ in range(width)] for _ in range(length)]
    rewards = [[draw(st.integers(0, max_reward)) for _ in range(width)] for _ in range(length)]
    loose = [[draw(st.integers(0, 1)) for _ in range(width)] for _ in range(length)]
    return dict(moves=moves, rewards=rewards, loose=loose, tb=draw(PROBS), rb=draw(PROBS), lb=draw(PROBS))


def random_board(seed, length, width, p_loose, max_reward, force_down, tb=0.1, rb=0.1, lb=0.1):
    r = repo()
    moves, rewards, loose = r.roberta_generator.gen_rnd_board(seed, length, width, p_loose, max_reward, force_down)
    return dict(moves=moves, rewards=rewards, loose=loose, tb=tb, rb=rb, lb=lb)


def cli_args(seed=None, width=None, length=None, rb=None, lb=None, tb=None, lt=None, max_reward=None, force_down=False):
    a = []
    for flag, val in (("--seed", seed), ("--width", width), ("--length", length), ("--prob_robot_break", rb),
                      ("--prob_light_break", lb), ("--prob_tile_break", tb), ("--prob_loose_tile", lt),
                      ("--max_reward", max_reward)):
        if val is not None:
            # --opt=value form: argparse would otherwise take "-5e-324" or "-inf" for an option
            a.append(f"{flag}={val!r}" if isinstance(val, float) else f"{flag}={val}")
    if force_down:
        a.append("-f")
    return a


def run_generator_cli_bare(args):
    """roberta_generator.main() in an EMPTY scratch directory (no inputs/ sub-directory).  Returns
    (kind, payload, listing of the directory afterwards)."""
    import sys
    r = repo()
    d = tempfile.mkdtemp(prefix="condrew_bare_")
    cwd, argv = os.getcwd(), sys.argv
    os.chdir(d)
    sys.argv = ["roberta_generator.py"] + list(args)
    try:
        try:
            r.roberta_generator.main()
            kind, payload = "ok", None
        except SystemExit as e:
            kind, payload = "exit", e
        except Exception as e:
            kind, payload = "exc", e
        listing = sorted(os.path.relpath(os.path.join(dp, f), d) for dp, dn, fn in os.walk(d) for f in fn + dn)
        return kind, payload, listing
    finally:
        sys.argv = argv
        os.chdir(cwd)
        shutil.rmtree(d, ignore_errors=True)


def run_generator_cli(args, clean=True):
    """roberta_generator.main() in-process: argv patched, cwd = scratch dir with inputs/ (emptied first
    unless clean=False).  Returns (kind, payload, files): kind 'ok' | 'exc' | 'exit'; files = {name: bytes}
    under inputs/ afterwards."""
    import sys
    r = repo()
    d = clean_scratch() if clean else scratch_dir()
    cwd = os.getcwd()
    argv = sys.argv
    os.chdir(d)
    sys.argv = ["roberta_generator.py"] + list(args)
    try:
        try:
            r.roberta_generator.main()
            kind, payload = "ok", None
        except SystemExit as e:
            kind, payload = "exit", e
        except Exception as e:
            kind, payload = "exc", e
        files = {}
        for name in sorted(os.listdir("inputs")):
            with open(os.path.join("inputs", name), "rb") as f:
                files[name] = f.read()
        return kind, payload, files
    finally:
        sys.argv = argv
        os.chdir(cwd)
