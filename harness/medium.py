"""Medium-size (tens to hundreds of states) stopping games with a float bracket oracle.

The exact rational oracle stops at about 16 states.  Changes that only misbehave above a size
threshold (a batch size, a cache, a cut-off) need bigger games, so this module builds stopping
games BY CONSTRUCTION (same rank argument as harness/games.py) from a seed - a pure function of
its arguments, because a game of 300 states would exhaust Hypothesis' per-example entropy budget -
and provides reference values by the harness's own value iteration:

* reach values: Gauss-Seidel from below (L) and from above (U).  By monotonicity L <= v* <= U
  after ANY number of sweeps, so the bracket is sound without a convergence assumption;
* T^: float estimate (from below, to 1e-10) of the maximal expected absorption time;
* total rewards of a conditioned game: Gauss-Seidel from below to 1e-12.
"""
import random

P1, P2, PR = "Player 1", "Player 2", "Probabilistic"


def medium_game(seed, n_inner, n_finals=2, n_sinks=2, p_back=0.35, reward_pool=(0, 0, 1, 2, 5, 0.5), max_k=4,
                dead_frac=0.15, numbering=None):
    """numbering: 'random' (a random permutation fixing the initial state), 'forward' (rank order, absorbing
    states last - the layout of the board generator, where values flow from high to low indices) or
    'backward' (absorbing states first).  Default: chosen from the seed."""
    rnd = random.Random(seed)
    if numbering is None:
        numbering = ("random", "forward", "backward")[seed % 3]
    n = n_inner + n_finals + n_sinks
    finals_a = list(range(n_inner, n_inner + n_finals))
    sinks_a = list(range(n_inner + n_finals, n))
    absorbing = finals_a + sinks_a
    dead = {a for a in range(1, n_inner) if rnd.random() < dead_frac}
    order = list(range(1, n))
    rnd.shuffle(order)
    if numbering == "forward":
        order = list(range(1, n))
    elif numbering == "backward":
        order = list(range(n - 1, 0, -1))
    ids = {0: 0}
    for a, num in zip(range(1, n), order):
        ids[a] = num
    players, rew, tl = [None] * n, [0] * n, [None] * n
    for a in range(n_inner):
        pl = rnd.choice((P1, P2, PR, PR))
        lo, hi = a + 1, min(n_inner, a + 1 + 12)       # progress edges stay local so games are deep
        if a in dead:
            higher = [b for b in range(lo, hi) if b in dead] + sinks_a
            anywhere = [b for b in range(max(0, a - 12), hi) if b in dead] + sinks_a
        else:
            higher = list(range(lo, hi)) or absorbing
            if rnd.random() < 0.3 or hi >= n_inner:
                higher = higher + absorbing
            anywhere = list(range(max(0, a - 12), hi))
        k = rnd.randint(1, max_k)
        if pl == PR:
            succ = [rnd.choice(higher)] + [rnd.choice(anywhere) if rnd.random() < p_back else rnd.choice(higher)
                                            for _ in range(k - 1)]
            rnd.shuffle(succ)
            w = [rnd.randint(1, 8) for _ in succ]
            tot = sum(w)
            tr = [(x / tot, ids[t]) for x, t in zip(w, succ)] if k > 1 else [(1, ids[succ[0]])]
        else:
            succ = [rnd.choice(higher) for _ in range(k)]
            tr = [("abcdef"[i], ids[t]) for i, t in enumerate(succ)]
        players[ids[a]] = pl
        rew[ids[a]] = rnd.choice(reward_pool)
        tl[ids[a]] = tr
    for a in absorbing:
        players[ids[a]] = PR
        tl[ids[a]] = [(1, ids[a])]
    return dict(rewards=rew, players=players, transition_list=tl, final_states=[ids[f] for f in finals_a])


def _step_reach(game, v, s):
    lst = game["transition_list"][s]
    pl = game["players"][s]
    if pl == PR:
        return sum(p * v[t] for p, t in lst)
    if pl == P1:
        return max(v[t] for _, t in lst)
    return min(v[t] for _, t in lst)


def positive_set(game):
    """States with positive max-min reachability value (graph attractor; exact)."""
    n = len(game["players"])
    pos = set(game["final_states"])
    changed = True
    while changed:
        changed = False
        for s in range(n):
            if s in pos:
                continue
            succ = [t for _, t in game["transition_list"][s]]
            ok = all(t in pos for t in succ) if game["players"][s] == P2 else any(t in pos for t in succ)
            if ok and succ:
                pos.add(s)
                changed = True
    return pos


def bracket_reach(game, eps=1e-13, cap=20000):
    n = len(game["players"])
    finals = set(game["final_states"])
    pos = positive_set(game)
    L = [1.0 if s in finals else 0.0 for s in range(n)]
    U = [1.0 if s in pos else 0.0 for s in range(n)]
    order = [s for s in range(n) if s in pos and s not in finals]
    for vec in (L, U):
        for _ in range(cap):
            d = 0.0
            for s in order:
                x = _step_reach(game, vec, s)
                d = max(d, abs(x - vec[s]))
                vec[s] = x
            if d <= eps:
                break
    return L, U, pos


def float_T(game, cap=20000):
    """Float estimate (from below) of the maximal expected absorption time; None if it does not settle."""
    n = len(game["players"])
    tl = game["transition_list"]
    absorbing = [not tl[s] or all(t == s for _, t in tl[s]) for s in range(n)]
    v = [0.0] * n
    for _ in range(cap):
        d = 0.0
        for s in range(n):
            if absorbing[s]:
                continue
            if game["players"][s] == PR:
                x = 1 + sum(float(p) * v[t] for p, t in tl[s])
            else:
                x = 1 + max(v[t] for _, t in tl[s])
            d = max(d, abs(x - v[s]))
            v[s] = x
        if d <= 1e-10:
            return max(v)
        if max(v) > 1e6:
            return None
    return None


def reward_values(cgame, cap=200000, eps=1e-12):
    """Gauss-Seidel from below for the max-min total reward of a (conditioned) game; None if not settled."""
    n = len(cgame["players"])
    tl = cgame["transition_list"]
    r = [float(x) for x in cgame["rewards"]]
    v = [0.0] * n
    for _ in range(cap):
        d = 0.0
        for s in range(n):
            if not tl[s]:
                x = 0.0
            elif cgame["players"][s] == PR:
                x = r[s] + sum(float(p) * v[t] for p, t in tl[s])
            elif cgame["players"][s] == P1:
                x = r[s] + max(v[t] for _, t in tl[s])
            else:
                x = r[s] + min(v[t] for _, t in tl[s])
            d = max(d, abs(x - v[s]))
            v[s] = x
        if d <= eps:
            return v
    return None


# ----------------------------------------------------------------------------- solving under float-derived budgets
def solve_medium(game, prune):
    """sut.solve under sweep budgets derived from the float estimates T^ (reach loop: input game; reward
    loop: the game actually iterated).  Returns (outcome, info) or (None, reason) if T^ is not usable."""
    from .analysis import sweep_bound
    from .sut import SkipSolve, solve
    T = float_T(game)
    if T is None or T > 2000:
        return None, "T^ not settled or > 2000"
    R = max([float(r) for r in game["rewards"]] + [0.0])
    info = dict(T=T, Tc=None)

    def on_reward_phase(state_list):
        g = dict(rewards=[s.reward for s in state_list], players=[s.player for s in state_list],
                 transition_list=[list(s.next_states) for s in state_list], final_states=[])
        Tc = float_T(g)
        if Tc is None or Tc > 4000:
            raise SkipSolve("conditioned game T^ not settled or > 4000")
        info["Tc"] = Tc
        return sweep_bound(Tc * 1.05 + 1, R)
    o = solve(game, prune, sweeps=sweep_bound(T * 1.05 + 1, R), on_reward_phase=on_reward_phase)
    return o, info


SIZES = (20, 40, 63, 64, 65, 100, 129, 200, 300)


def medium_cases(count, base_seed=0):
    """Deterministic list of (seed, n_inner) pairs cycling through SIZES."""
    return [dict(seed=base_seed * 100003 + i, n_inner=SIZES[i % len(SIZES)]) for i in range(count)]
