"""Coverage-guided fuzz stage (atheris / libFuzzer) run as an extra stage of a check.

The fuzz target carries its own semantic oracle and is run in a subprocess under the tooling
interpreter (python3-vt, where atheris is installed) against the same repository tree
(VERIF_REPO is passed on).  A campaign is pinned only approximately by -seed/-runs (libFuzzer),
so the reproducible unit is the saved crashing input: it is decoded back into a plain case and
re-checked in-process by the property's own check_case, which is what produces the verdict and
the replay file.  If the interpreter or atheris is missing the stage is skipped and says so.
"""
import glob
import json
import os
import shutil
import subprocess
import tempfile

from . import codec

VERIF = os.path.dirname(os.path.dirname(os.path.abspath(__file__)))
PY = shutil.which("python3-vt") or "/opt/veriftools/pyvenv/bin/python"


def available():
    if not os.path.exists(PY):
        return False
    r = subprocess.run([PY, "-c", "import atheris"], capture_output=True)
    return r.returncode == 0


def campaign(target, runs, seed, max_len=200, seeds=(), timeout=1800):
    """Run one campaign from a fresh corpus directory (optionally pre-seeded with a few inputs).
    Returns dict(executions, stats, crashes=[decoded cases], skipped=reason|None)."""
    if not available():
        return dict(executions=0, stats={}, crashes=[], skipped="python3-vt / atheris not available")
    tmp = tempfile.mkdtemp(prefix="fuzz_")
    try:
        corpus = os.path.join(tmp, "corpus")
        os.makedirs(corpus)
        for i, data in enumerate(seeds):
            with open(os.path.join(corpus, f"seed{i}"), "wb") as f:
                f.write(data)
        stats_path = os.path.join(tmp, "stats.json")
        env = dict(os.environ, FUZZ_STATS=stats_path, PYTHONHASHSEED="0", PYTHONDONTWRITEBYTECODE="1")
        env.pop("PYTHONPATH", None)
        script = os.path.join(VERIF, "fuzz", target)
        cmd = [PY, script, corpus, f"-runs={runs}", f"-seed={max(1, int(seed))}", f"-max_len={max_len}",
               f"-artifact_prefix={tmp}/", "-verbosity=0"]
        try:
            p = subprocess.run(cmd, env=env, capture_output=True, text=True, timeout=timeout)
        except subprocess.TimeoutExpired:
            return dict(executions=0, stats={}, crashes=[], skipped="fuzz campaign timed out (inconclusive)")
        stats = {}
        if os.path.exists(stats_path):
            with open(stats_path) as f:
                stats = json.load(f)
        execs = stats.pop("_executions", 0)
        crashes = []
        for path in sorted(glob.glob(os.path.join(tmp, "crash-*"))):
            d = subprocess.run([PY, script, "--decode", path], env=env, capture_output=True, text=True)
            if d.returncode == 0 and d.stdout.strip():
                crashes.append(codec.dec(json.loads(d.stdout.strip().splitlines()[-1])))
        note = None
        if p.returncode != 0 and not crashes:
            note = "fuzzer exited with status %d without a decodable crash: %s" % (p.returncode, p.stderr[-300:])
        return dict(executions=execs, stats=stats, crashes=crashes, skipped=None, note=note,
                    corpus_size=len(os.listdir(corpus)))
    finally:
        shutil.rmtree(tmp, ignore_errors=True)
