"""Plain-data <-> JSON codec used for replay files, samples and case digests.

Cases are plain Python data (dict / list / tuple / str / int / float / None and
the odd bytes / complex value used by the fault enumerator).  JSON cannot tell a
tuple from a list and cannot hold nan / inf / bytes / complex, so those are
tagged.  ``dec(enc(x)) == x`` with types preserved.
"""
import hashlib
import json
import math
from fractions import Fraction


def enc(x):
    if x is None or isinstance(x, (bool, str)):
        return x
    if isinstance(x, int):
        return x if abs(x) < 2 ** 53 else {"__i": str(x)}
    if isinstance(x, float):
        if math.isnan(x) or math.isinf(x):
            return {"__f": repr(x)}
        return x
    if isinstance(x, Fraction):
        return {"__q": [str(x.numerator), str(x.denominator)]}
    if isinstance(x, tuple):
        return {"__t": [enc(v) for v in x]}
    if isinstance(x, list):
        return [enc(v) for v in x]
    if isinstance(x, bytes):
        return {"__b": x.hex()}
    if isinstance(x, complex):
        return {"__c": [x.real, x.imag]}
    if isinstance(x, (set, frozenset)):
        return {"__s": sorted((enc(v) for v in x), key=lambda v: json.dumps(v, sort_keys=True))}
    if isinstance(x, dict):
        if all(isinstance(k, str) and not k.startswith("__") for k in x):
            return {k: enc(v) for k, v in x.items()}
        return {"__d": [[enc(k), enc(v)] for k, v in x.items()]}
    raise TypeError(f"codec: cannot encode {type(x).__name__}: {x!r}")


def dec(x):
    if isinstance(x, list):
        return [dec(v) for v in x]
    if isinstance(x, dict):
        if len(x) == 1:
            (k, v), = x.items()
            if k == "__t":
                return tuple(dec(e) for e in v)
            if k == "__f":
                return float(v)
            if k == "__i":
                return int(v)
            if k == "__q":
                return Fraction(int(v[0]), int(v[1]))
            if k == "__b":
                return bytes.fromhex(v)
            if k == "__c":
                return complex(v[0], v[1])
            if k == "__s":
                return set(dec(e) for e in v)
            if k == "__d":
                return {dec(a): dec(b) for a, b in v}
        return {k: dec(v) for k, v in x.items()}
    return x


def dumps(x, **kw):
    return json.dumps(enc(x), **kw)


def loads(s):
    return dec(json.loads(s))


def digest(x):
    """Stable digest of a case (canonical JSON of the encoded value)."""
    return hashlib.sha1(json.dumps(enc(x), sort_keys=True, separators=(",", ":")).encode()).hexdigest()
