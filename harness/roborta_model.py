"""REF: abstract model of "Roborta vs. the fair Light" and a probabilistic-bisimulation check.

The model is written from the rules in property C08 over NAMED positions - no
numeric offsets, no group layout:

  light(i,j)   Player 2, collects the tile's reward; Green always, Yellow unless the tile is down-only
  robotG(i,j)  Player 1 after Green: Down
  robotY(i,j)  Player 1 after Yellow: Left / Right as the tile's arrows allow, wrapping within the row
  land(i,j)    chance: landing on a loose tile loses with the tile-break probability
  WIN / LOSE   absorbing; WIN is the only final state; Down from the last row goes to WIN
  variant B    every attempted move goes through a chance state: robot failure -> land on the own tile again
  variant C    additionally the light may fail: robotFree(i,j) chooses among Down and the tile's arrows

The turn granularity (light -> robot -> chance -> light) is the generator's, because the
statement asks for bisimilarity, which is step-exact.
"""
P1, P2, PR = "Player 1", "Player 2", "Probabilistic"


def model(variant, board):
    moves, rewards, loose = board["moves"], board["rewards"], board["loose"]
    tb, rb, lb = board["tb"], board["rb"], board["lb"]
    L, W = len(moves), len(moves[0])
    S = {}

    def add(name, owner, reward, final, tr):
        S[name] = (owner, reward, final, tr)
    add("WIN", PR, 0, True, [(1, "WIN")])
    add("LOSE", PR, 0, False, [(1, "LOSE")])
    for i in range(L):
        for j in range(W):
            m = moves[i][j]
            if loose[i][j]:
                add(("land", i, j), PR, 0, False, [(tb, "LOSE"), (1 - tb, ("light", i, j))])
            else:
                add(("land", i, j), PR, 0, False, [(1, ("light", i, j))])
            down = ("land", i + 1, j) if i < L - 1 else "WIN"
            left = ("land", i, (j - 1) % W)
            right = ("land", i, (j + 1) % W)
            if variant == "a":
                tgt = {"Down": down, "Left": left, "Right": right}
            else:
                for nm, t in (("Down", down), ("Left", left), ("Right", right)):
                    add(("try", nm, i, j), PR, 0, False, [(rb, ("land", i, j)), (1 - rb, t)])
                tgt = {nm: ("try", nm, i, j) for nm in ("Down", "Left", "Right")}
            lr = []
            if m in (0, 1):
                lr.append(("Left", tgt["Left"]))
            if m in (1, 2):
                lr.append(("Right", tgt["Right"]))
            add(("robotG", i, j), P1, 0, False, [("Down", tgt["Down"])])
            if m != 3:
                add(("robotY", i, j), P1, 0, False, lr)
            if variant == "c":
                add(("robotFree", i, j), P1, 0, False, [("Down", tgt["Down"])] + lr)
                add(("lightG", i, j), PR, 0, False, [(lb, ("robotFree", i, j)), (1 - lb, ("robotG", i, j))])
                if m != 3:
                    add(("lightY", i, j), PR, 0, False, [(lb, ("robotFree", i, j)), (1 - lb, ("robotY", i, j))])
                lt = [("Green", ("lightG", i, j))] + ([("Yellow", ("lightY", i, j))] if m != 3 else [])
            else:
                lt = [("Green", ("robotG", i, j))] + ([("Yellow", ("robotY", i, j))] if m != 3 else [])
            add(("light", i, j), P2, rewards[i][j], False, lt)
    return S, ("light", 0, 0)


def from_game(g):
    S = {}
    finals = set(g["final_states"])
    for s, (pl, r, tr) in enumerate(zip(g["players"], g["rewards"], g["transition_list"])):
        S[("g", s)] = (pl, r, s in finals, [(l, ("g", t)) for l, t in tr])
    return S, ("g", 0)


def reachable(S, init):
    seen = {init}
    st = [init]
    while st:
        for _, t in S[st.pop()][3]:
            if t not in seen:
                seen.add(t)
                st.append(t)
    return seen


def bisimilar(S1, i1, S2, i2):
    """Coarsest probabilistic bisimulation (partition refinement) on the disjoint union of the
    parts reachable from the two initial states.  Labels: owner, reward, finality; player moves
    compared as sets of (action label, class); chance moves as class distributions (probabilities
    summed per class, rounded to 12 significant digits).  Returns (bool, explanation)."""
    S = {**{("m", k): v for k, v in S1.items()}, **{("e", k): v for k, v in S2.items()}}
    nodes = [("m", k) for k in reachable(S1, i1)] + [("e", k) for k in reachable(S2, i2)]
    cls = {x: ("init", S[x][0], S[x][1], S[x][2]) for x in nodes}
    ncls = len(set(cls.values()))
    while True:
        sig = {}
        for x in nodes:
            side = x[0]
            own, r, f, tr = S[x]
            if own == PR:
                d = {}
                for p, t in tr:
                    c = cls[(side, t)]
                    d[c] = d.get(c, 0) + p
                # twelve significant digits (not decimals): 1e-120 and 1e-12 are different probabilities
                s = frozenset((c, float(f"{p:.12e}")) for c, p in d.items())
            else:
                s = frozenset((l, cls[(side, t)]) for l, t in tr)
            sig[x] = (cls[x], s)
        ids = {}
        new = {x: ids.setdefault(sig[x], len(ids)) for x in nodes}
        n2 = len(ids)
        cls = new
        if n2 == ncls:
            break
        ncls = n2
    ok = cls[("m", i1)] == cls[("e", i2)]
    why = ""
    if not ok:
        why = explain(S, cls, ("m", i1), ("e", i2))
    return ok, why


def explain(S, cls, a, b):
    """Walk from the two initial states along matching labels to the first visibly different pair."""
    seen = set()
    path = []
    cur = (a, b)
    for _ in range(60):
        x, y = cur
        if cur in seen:
            break
        seen.add(cur)
        ox, rx, fx, tx = S[x]
        oy, ry, fy, ty = S[y]
        if (ox, rx, fx) != (oy, ry, fy):
            return f"after {path}: model {x[1]} is (owner={ox}, reward={rx}, final={fx}) but emitted state {y[1]} is (owner={oy}, reward={ry}, final={fy})"
        if ox != PR:
            lx, ly = {l for l, _ in tx}, {l for l, _ in ty}
            if lx != ly:
                return f"after {path}: model {x[1]} offers actions {sorted(lx)}, emitted state {y[1]} offers {sorted(ly)}"
            nxt = None
            for l, t in tx:
                for l2, t2 in ty:
                    if l2 == l and cls[(x[0], t)] != cls[(y[0], t2)]:
                        nxt = (l, (x[0], t), (y[0], t2))
                        break
                if nxt:
                    break
            if not nxt:
                break
            path.append(nxt[0])
            cur = (nxt[1], nxt[2])
        else:
            dx, dy = {}, {}
            for p, t in tx:
                dx[cls[(x[0], t)]] = dx.get(cls[(x[0], t)], 0) + p
            for p, t in ty:
                dy[cls[(y[0], t)]] = dy.get(cls[(y[0], t)], 0) + p
            rx_ = {c: round(p, 9) for c, p in dx.items()}
            ry_ = {c: round(p, 9) for c, p in dy.items()}
            if rx_ != ry_:
                # follow a successor pair with equal probability but different class if there is one
                for p, t in tx:
                    for p2, t2 in ty:
                        if round(p, 9) == round(p2, 9) and cls[(x[0], t)] != cls[(y[0], t2)] and \
                                cls[(x[0], t)] not in ry_ and cls[(y[0], t2)] not in rx_:
                            path.append(f"p={p}")
                            cur = ((x[0], t), (y[0], t2))
                            break
                    else:
                        continue
                    break
                else:
                    return f"after {path}: model {x[1]} moves {[(p, t) for p, t in tx]}, emitted state {y[1]} moves {[(p, t[1]) for p, t in ty]}"
            else:
                break
    return f"after {path}: model {cur[0][1]} and emitted state {cur[1][1]} are not bisimilar"
