"""Termination without a wall clock.

``with sweep_budget(tad, n_sweeps, n_states) as b:`` bounds the work a solve may
do, by two independent run-time monkey patches (both removed on exit; the
repository needs no hook):

* ``tad.logging`` is replaced by a shim that counts the per-sweep debug message
  ``"iteration <i>"`` the two value-iteration loops emit;
* the per-state Bellman step methods of the three node classes are wrapped and
  counted; ``n_sweeps * n_states`` calls is the same budget expressed in steps,
  and still works on a tree that no longer logs.

Exceeding either raises BudgetExceeded, a BaseException so that no ``except
Exception`` / ``except ValueError`` in the code under test can swallow it.
The shim also silences the repository's logging (a no-op is cheaper than the
real module, and the batch runner's logging.error would otherwise write to
stderr).
"""
import contextlib
import logging as _real_logging


class BudgetExceeded(BaseException):
    pass


# The logging level the repository's modules see through the shim.  The runner sets it per case from the
# case's digest (a pure function of the case, so replays reproduce): results must not depend on it.
DEFAULT_LEVEL = _real_logging.WARNING
LEVELS = (_real_logging.WARNING, _real_logging.DEBUG, _real_logging.WARNING, _real_logging.INFO)


_null_handler_installed = False


def set_level_for_case(digest_hex):
    """Also sets the REAL root logger to that level (repository modules that are not shimmed - reverse_dfs,
    roberta_generator - read it from there).  A NullHandler keeps logging.basicConfig() from being triggered
    implicitly, so nothing is printed."""
    global DEFAULT_LEVEL, _null_handler_installed
    DEFAULT_LEVEL = LEVELS[int(digest_hex[:4], 16) % len(LEVELS)]
    root = _real_logging.getLogger()
    if not _null_handler_installed:
        root.addHandler(_real_logging.NullHandler())
        _null_handler_installed = True
    root.setLevel(DEFAULT_LEVEL)
    return DEFAULT_LEVEL


class _Shim:
    DEBUG = _real_logging.DEBUG
    INFO = _real_logging.INFO
    WARNING = _real_logging.WARNING
    ERROR = _real_logging.ERROR
    CRITICAL = _real_logging.CRITICAL

    def __init__(self, budget):
        self.budget = budget
        self.sweeps = 0        # "iteration" messages seen (all loops of the solve)
        self.steps = 0         # node Bellman steps seen
        self.per_sweep = None  # optional callback run at every sweep start (trajectory sampling)
        self.level = DEFAULT_LEVEL           # what getLogger().getEffectiveLevel() reports (settable)

    def debug(self, msg, *a, **k):
        if type(msg) is str and msg.startswith("iteration "):
            self.sweeps += 1
            if self.per_sweep is not None:
                self.per_sweep()
            if self.budget is not None and self.sweeps > self.budget:
                raise BudgetExceeded(f"more than {self.budget} sweeps")

    def info(self, *a, **k):
        pass

    warning = error = critical = exception = log = info

    def getLogger(self, *a, **k):
        return _NullLogger(self)

    def basicConfig(self, *a, **k):
        pass

    def __getattr__(self, name):
        return getattr(_real_logging, name)


class _NullLogger:
    def __init__(self, shim=None):
        self._shim = shim

    def getEffectiveLevel(self):
        return self._shim.level if self._shim is not None else _real_logging.WARNING

    def isEnabledFor(self, level):
        return level >= self.getEffectiveLevel()

    @property
    def level(self):
        return self.getEffectiveLevel()

    def __getattr__(self, name):
        return lambda *a, **k: None


_STEP_METHODS = ("value_iteration_reach", "value_iteration_rewards")
_NODE_CLASSES = ("PlayerOne", "PlayerTwo", "ProbabilisticNode")


@contextlib.contextmanager
def sweep_budget(tad, n_sweeps=None, n_states=None, extra_modules=(), on_reward_phase=None):
    """Bound a solve to n_sweeps value-iteration sweeps (None = only count / silence).

    on_reward_phase(state_list) -> int, if given, is called when the total-reward loop is
    entered (Solver.value_iteration_total_rewards wrapped at run time) and returns the number
    of further sweeps allowed for that loop: the bound is derived from the game that is
    actually iterated, which only exists once conditioning is done."""
    shim = _Shim(n_sweeps)
    shim.step_budget = None
    if n_sweeps is not None and n_states:
        # plus slack for the final bookkeeping pass
        shim.step_budget = (n_sweeps + 2) * max(1, n_states)
    saved_logging = []
    mods = [tad] + [m for m in extra_modules if m is not tad]
    for mod in mods:
        if hasattr(mod, "logging"):
            saved_logging.append((mod, mod.logging))
            mod.logging = shim
    saved_methods = []
    solver_cls = getattr(tad, "Solver", None)
    if on_reward_phase is not None and solver_cls is not None and \
            "value_iteration_total_rewards" in solver_cls.__dict__:
        orig_vi = solver_cls.__dict__["value_iteration_total_rewards"]

        def vi_wrapped(self, *a, **k):
            allowed = on_reward_phase(self.state_list)
            if allowed is not None:
                shim.budget = shim.sweeps + allowed
                shim.step_budget = shim.steps + (allowed + 2) * max(1, len(self.state_list))
            try:
                return orig_vi(self, *a, **k)
            finally:
                # a later solve under the same budget (batch runs) starts with a fresh reach-phase allowance
                if n_sweeps is not None:
                    shim.budget = shim.sweeps + n_sweeps
                    shim.step_budget = shim.steps + (n_sweeps + 2) * max(1, len(self.state_list))
        saved_methods.append((solver_cls, "value_iteration_total_rewards", orig_vi))
        solver_cls.value_iteration_total_rewards = vi_wrapped
    if shim.step_budget is not None:
        for cname in _NODE_CLASSES:
            cls = getattr(tad, cname, None)
            if cls is None:
                continue
            for mname in _STEP_METHODS:
                orig = cls.__dict__.get(mname)
                if orig is None:
                    continue

                def make(orig):
                    def counted(self, *a, **k):
                        shim.steps += 1
                        if shim.steps > shim.step_budget:
                            raise BudgetExceeded(f"more than {shim.step_budget} node updates")
                        return orig(self, *a, **k)
                    return counted
                saved_methods.append((cls, mname, orig))
                setattr(cls, mname, make(orig))
    try:
        yield shim
    finally:
        for cls, mname, orig in saved_methods:
            setattr(cls, mname, orig)
        for mod, lg in saved_logging:
            mod.logging = lg


def silence(*modules):
    """Context manager: only silence logging in the given repo modules."""
    return sweep_budget(modules[0], None, None, extra_modules=modules[1:])
