"""Runner: seeds, tiers, sharding, collect-then-shrink, evidence, replay, exit codes.

Exit codes: 0 = property held on everything explored (KNOWN-FINDING lines
allowed), 1 = violation (a line ``VIOLATION property=<id> replay=<path>`` is
printed), 2 = harness error / inconclusive (never a VIOLATION).
"""
import collections
import importlib
import json
import multiprocessing
import os
import signal
import sys
import time
import traceback

from . import codec
from .load import HarnessError

VERIF = os.path.dirname(os.path.dirname(os.path.abspath(__file__)))
OUT = os.environ.get("VERIF_OUT") or VERIF      # evidence/ and replays/ go here (mutant suite redirects it)
MAX_SAMPLES = 6
MAX_FAIL_KEEP = 40


# ----------------------------------------------------------------------------- verdicts
class Fail:
    __slots__ = ("clause", "sig", "detail", "known", "case")

    def __init__(self, clause, detail="", sig=None, known=None, case=None):
        self.clause = clause
        self.sig = f"{clause}|{sig}" if sig else clause
        self.detail = detail
        self.known = known
        self.case = case           # narrower replayable case (e.g. one fault of an enumerated batch)

    def as_dict(self):
        return dict(clause=self.clause, sig=self.sig, detail=self.detail, known=self.known)


class Verdict:
    __slots__ = ("fails", "classes", "nontrivial", "inconclusive", "excluded", "key", "evals", "nt_keys")

    def __init__(self):
        self.fails = []
        self.classes = []
        self.nontrivial = False
        self.inconclusive = None   # reason string: case could not be decided (counted, not a violation)
        self.excluded = None       # reason string: excluded by construction (known finding shape)
        self.key = None            # canonical data for distinctness (default: the case)
        self.evals = None          # a case that is a batch of evaluations (fault enumeration) says how many
        self.nt_keys = None        # ... and lists the distinct non-trivial ones (hashable plain data)

    def fail(self, clause, detail="", sig=None, known=None, case=None):
        self.fails.append(Fail(clause, detail, sig, known, case))

    def cls(self, *names):
        self.classes.extend(names)


def decide(mod, case):
    """check_case under the logging level derived from the case (see harness/budget.py)."""
    from . import budget
    try:
        budget.set_level_for_case(codec.digest(case))
    except TypeError:
        pass
    from . import sut
    sut.NOTES.clear()
    v = mod.check_case(case)
    if sut.NOTES and hasattr(v, "cls"):
        v.cls(*sorted(sut.NOTES))
    return v


class Phase:
    def __init__(self, name, strategy=None, enum=None, examples=(0, 0), exhaustive=False, note="",
                 machine=None, minimise=None, steps=12):
        self.name = name
        self.machine = machine        # callable(sink) -> RuleBasedStateMachine subclass (stateful generation)
        self.minimise = minimise      # callable(case, sig) -> smaller failing case (for machine phases)
        self.steps = steps
        self.strategy = strategy      # Hypothesis strategy (callable returning one, evaluated lazily)
        self.enum = enum              # callable -> iterable of cases
        self.examples = examples      # (quick total, thorough total) for strategies
        self.exhaustive = exhaustive
        self.note = note


# ----------------------------------------------------------------------------- known findings
def load_known():
    path = os.path.join(VERIF, "known_findings.json")
    if not os.path.exists(path):
        return []
    with open(path) as f:
        data = json.load(f)
    return data.get("findings", [])


def active_known(prop_id):
    """ids of findings with status 'known' listed for this property."""
    out = {}
    for e in load_known():
        if e.get("status") == "known" and prop_id in e.get("properties", [e.get("property")]):
            out[e["id"]] = e
    return out


# ----------------------------------------------------------------------------- stats
class Stats:
    def __init__(self):
        self.evaluations = 0
        self.nontrivial = set()
        self.classes = collections.Counter()
        self.samples = []
        self.sample_classes = set()
        self.fails = {}            # sig -> dict(count, clause, detail, case, size, phase, shard, known)
        self.known = collections.Counter()
        self.inconclusive = collections.Counter()
        self.excluded = collections.Counter()
        self.phase_counts = collections.Counter()

    def add(self, mod, phase_name, shard, case, v):
        self.evaluations += 1 if v.evals is None else v.evals
        self.phase_counts[phase_name] += 1 if v.evals is None else v.evals
        if v.nt_keys:
            for k in v.nt_keys:
                self.nontrivial.add(codec.digest(k))
        for c in v.classes:
            self.classes[c] += 1
        if v.inconclusive:
            self.inconclusive[v.inconclusive] += 1
        if v.excluded:
            self.excluded[v.excluded] += 1
        if v.nontrivial:
            if v.nt_keys is None:
                self.nontrivial.add(codec.digest(v.key if v.key is not None else case))
            newcls = [c for c in v.classes if c not in self.sample_classes]
            if len(self.samples) < 3 or (newcls and len(self.samples) < MAX_SAMPLES):
                self.sample_classes.update(v.classes)
                view = mod.sample_view(case) if hasattr(mod, "sample_view") else case
                self.samples.append(dict(phase=phase_name, classes=sorted(set(v.classes)), case=codec.enc(view)))
        for f in v.fails:
            if f.known:
                self.known[f.known] += 1
                continue
            fcase = f.case if f.case is not None else case
            size = len(codec.dumps(fcase))
            rec = self.fails.get(f.sig)
            if rec is None:
                if len(self.fails) >= MAX_FAIL_KEEP:
                    continue
                self.fails[f.sig] = dict(count=1, clause=f.clause, detail=f.detail, case=codec.enc(fcase),
                                         size=size, phase=phase_name, shard=shard)
            else:
                rec["count"] += 1
                if size < rec["size"]:
                    rec.update(detail=f.detail, case=codec.enc(fcase), size=size, phase=phase_name, shard=shard)

    def export(self):
        return dict(evaluations=self.evaluations, nontrivial=sorted(self.nontrivial),
                    classes=dict(self.classes), samples=self.samples, fails=self.fails,
                    known=dict(self.known), inconclusive=dict(self.inconclusive),
                    excluded=dict(self.excluded), phase_counts=dict(self.phase_counts))


def merge(parts):
    tot = dict(evaluations=0, nontrivial=set(), classes=collections.Counter(), samples=[], fails={},
               known=collections.Counter(), inconclusive=collections.Counter(),
               excluded=collections.Counter(), phase_counts=collections.Counter())
    seen_cls = set()
    for p in parts:
        tot["evaluations"] += p["evaluations"]
        tot["nontrivial"].update(p["nontrivial"])
        for k in ("classes", "known", "inconclusive", "excluded", "phase_counts"):
            tot[k].update(p[k])
        for s in p["samples"]:
            new = [c for c in s["classes"] if c not in seen_cls]
            if len(tot["samples"]) < 3 or (new and len(tot["samples"]) < MAX_SAMPLES):
                seen_cls.update(s["classes"])
                tot["samples"].append(s)
        for sig, rec in p["fails"].items():
            cur = tot["fails"].get(sig)
            if cur is None:
                tot["fails"][sig] = dict(rec)
            else:
                cnt = cur["count"] + rec["count"]
                if rec["size"] < cur["size"]:
                    cur.update(rec)
                cur["count"] = cnt
    return tot


# ----------------------------------------------------------------------------- running
def _settings(n, shrink, **extra):
    from hypothesis import HealthCheck, Phase as HPhase, settings
    phases = [HPhase.generate] + ([HPhase.shrink] if shrink else [])
    return settings(max_examples=max(1, n), database=None, deadline=None, derandomize=False,
                    report_multiple_bugs=False, suppress_health_check=list(HealthCheck),
                    phases=phases, print_blob=False, **extra)


def run_machine(factory, n, hseed, sink, steps):
    import hypothesis
    from hypothesis.stateful import run_state_machine_as_test
    machine = hypothesis.seed(hseed)(factory(sink))
    run_state_machine_as_test(machine, settings=_settings(n, False, stateful_step_count=steps))


THOROUGH_SCALE = 4     # thorough-tier example counts in the property modules are multiplied by this


def phase_total(mod, ph, tier):
    if tier == "quick":
        return ph.examples[0]
    return int(ph.examples[1] * getattr(mod, "THOROUGH_SCALE", THOROUGH_SCALE))


def shard_seed(seed, shard, phase_idx):
    return (int(seed) * 1000 + shard) * 100 + phase_idx


def run_strategy(strategy, n, hseed, fn, shrink=False):
    import hypothesis
    from hypothesis import given

    @hypothesis.seed(hseed)
    @_settings(n, shrink)
    @given(strategy)
    def test(case):
        fn(case)
    test()


def run_shard(args):
    prop_id, tier, seed, shard, nshards = args
    try:
        mod = load_prop(prop_id)
        stats = Stats()
        for pi, ph in enumerate(mod.phases(tier)):
            if ph.enum is not None:
                for i, case in enumerate(ph.enum()):
                    if i % nshards != shard:
                        continue
                    stats.add(mod, ph.name, shard, case, decide(mod, case))
            else:
                total = phase_total(mod, ph, tier)
                n = total // nshards + (1 if shard < total % nshards else 0)
                if n <= 0:
                    continue
                if ph.machine is not None:
                    def sink(case, v, ph=ph):
                        stats.add(mod, ph.name, shard, case, v)
                    run_machine(ph.machine, n, shard_seed(seed, shard, pi), sink, ph.steps)
                    continue

                def fn(case, ph=ph):
                    stats.add(mod, ph.name, shard, case, decide(mod, case))
                run_strategy(ph.strategy(), n, shard_seed(seed, shard, pi), fn)
        return ("ok", stats.export())
    except BaseException as e:  # harness error inside a worker
        return ("error", f"shard {shard}: {type(e).__name__}: {e}\n{traceback.format_exc()}")
    finally:
        if nshards > 1:
            # pool workers leave through os._exit, which skips atexit: remove the scratch directory here
            from . import boards
            boards.drop_scratch()


class _Found(Exception):
    pass


def shrink_failure(mod, tier, seed, nshards, rec, sig, budget_s):
    """Second, raising Hypothesis run of the same phase / shard whose test fails exactly on
    `sig`, so that Hypothesis's shrinker minimises it.  Returns the smallest failing case seen."""
    phases = mod.phases(tier)
    names = [p.name for p in phases]
    if rec["phase"] not in names or sig.endswith("|python-O"):
        return codec.dec(rec["case"]), rec["detail"]      # found under python -O: not re-searched in this interpreter
    pi = names.index(rec["phase"])
    ph = phases[pi]
    best = dict(case=codec.dec(rec["case"]), detail=rec["detail"], size=rec["size"])
    if ph.enum is not None:
        return best["case"], best["detail"]
    if ph.machine is not None:
        if ph.minimise is not None:
            small = ph.minimise(best["case"], sig)
            v = decide(mod, small)
            for f in v.fails:
                if f.sig == sig:
                    return small, f.detail
        return best["case"], best["detail"]
    shard = rec["shard"]
    total = phase_total(mod, ph, tier)
    n = total // nshards + (1 if shard < total % nshards else 0)
    t0 = time.time()

    def fn(case):
        if time.time() - t0 > budget_s:
            return                       # stop failing: the shrinker winds down
        v = decide(mod, case)
        for f in v.fails:
            if f.sig == sig and not f.known:
                fcase = f.case if f.case is not None else case
                size = len(codec.dumps(fcase))
                if size <= best["size"]:
                    best.update(case=fcase, detail=f.detail, size=size)
                raise _Found()
    try:
        run_strategy(ph.strategy(), n, shard_seed(seed, shard, pi), fn, shrink=True)
    except BaseException as e:
        if isinstance(e, (KeyboardInterrupt, SystemExit)):
            raise
    return best["case"], best["detail"]


def opt_stage(prop_id, tier, seed):
    """Re-run one thin shard of the search in a child interpreter started with -O (asserts and `if __debug__:`
    blocks compiled away, as under PYTHONOPTIMIZE=1): the properties do not depend on interpreter flags."""
    import pickle
    import subprocess
    import tempfile
    fd, path = tempfile.mkstemp(prefix="optstage_", suffix=".pkl")
    os.close(fd)
    nsh = 8 if tier == "quick" else 32
    code = ("import sys, pickle; from harness.runner import run_shard; "
            f"r = run_shard(({prop_id!r}, {tier!r}, {int(seed) + 7919}, 0, {nsh})); "
            f"pickle.dump(r, open({path!r}, 'wb'))")
    env = dict(os.environ, PYTHONOPTIMIZE="1", VERIF_OPT_STAGE="1")
    proc = subprocess.Popen([sys.executable, "-O", "-B", "-c", code], env=env, cwd=VERIF, stdout=subprocess.DEVNULL,
                            stderr=subprocess.DEVNULL)
    return proc, path, (1800 if tier == "quick" else 7200)


def opt_stage_finish(handle):
    import pickle
    proc, path, timeout = handle
    try:
        proc.wait(timeout=timeout)
        with open(path, "rb") as f:
            res = pickle.load(f)
    except Exception as e:
        try:
            proc.kill()
        except Exception:
            pass
        return None, f"optimised-interpreter stage did not complete: {type(e).__name__}: {e}"
    finally:
        try:
            os.remove(path)
        except OSError:
            pass
    if res[0] != "ok":
        return None, "optimised-interpreter stage failed: " + str(res[1])[-400:]
    part = res[1]
    for k in ("phase_counts",):
        part[k] = {name + " [python -O]": c for name, c in part[k].items()}
    for rec in part["fails"].values():
        rec["phase"] = rec["phase"]            # same phase names: the shrink pass re-runs them in this interpreter
        rec["detail"] = "[under python -O] " + rec["detail"]
    part["fails"] = {sig + "|python-O": rec for sig, rec in part["fails"].items()}
    return part, None


def load_prop(prop_id):
    return importlib.import_module(f"props.{prop_id.lower()}")


def write_replay(prop_id, sig, clause, detail, case, seed, tier, phase):
    import hashlib
    d = os.path.join(OUT, "replays", prop_id)
    os.makedirs(d, exist_ok=True)
    h = hashlib.sha1(sig.encode()).hexdigest()[:10]
    path = os.path.join(d, f"{h}.json")
    with open(path, "w") as f:
        json.dump(dict(property=prop_id, sig=sig, clause=clause, detail=detail, seed=seed, tier=tier,
                       phase=phase, interpreter="-O" if sig.endswith("|python-O") else "", case=codec.enc(case)),
                  f, indent=1)
    return path


def _watchdog(limit):
    def handler(signum, frame):
        print(f"INCONCLUSIVE: harness watchdog fired after {limit}s (not a violation)", flush=True)
        os._exit(2)
    signal.signal(signal.SIGALRM, handler)
    signal.alarm(limit)


def replay(prop_id, path):
    mod = load_prop(prop_id)
    with open(path) as f:
        data = json.load(f)
    if data.get("interpreter") == "-O" and not sys.flags.optimize:
        import subprocess
        code = "import sys; from harness.runner import main; sys.exit(main(sys.argv[1:]))"
        return subprocess.run([sys.executable, "-O", "-B", "-c", code, prop_id, "--replay", path], cwd=VERIF,
                              env=dict(os.environ, PYTHONOPTIMIZE="1")).returncode
    case = codec.dec(data["case"])
    v = decide(mod, case)
    bad = [f for f in v.fails if not f.known]
    for f in v.fails:
        tag = f"KNOWN-FINDING({f.known})" if f.known else "FAIL"
        print(f"{tag}: {f.clause}: {f.detail}")
    if bad:
        print(f"VIOLATION property={prop_id} replay={path}")
        return 1
    print(f"replay of {path}: property {prop_id} holds on this case"
          + (" (known finding only)" if v.fails else ""))
    return 0


def run(prop_id, tier, seed, nshards=None):
    t0 = time.time()
    os.environ["VERIF_TIER_EFFECTIVE"] = tier
    mod = load_prop(prop_id)
    if nshards is None:
        nshards = getattr(mod, "SHARDS", {}).get(tier, 4 if tier == "quick" else 16)
    _watchdog(getattr(mod, "WATCHDOG", {}).get(tier, 900 if tier == "quick" else 7200))
    known = active_known(prop_id)

    # 1. deterministic replays of the listed known findings
    known_seen = collections.Counter()
    known_notes = []
    extra_parts = []
    st0 = Stats()
    for kid, entry in known.items():
        for case_enc in entry.get("replays", {}).get(prop_id, []):
            case = codec.dec(case_enc)
            v = decide(mod, case)
            st0.add(mod, "known-finding-replay", 0, case, v)
            if not any(f.known == kid for f in v.fails):
                known_notes.append(f"listed finding {kid} did not reproduce on its recorded input")
    # 1b. committed regression replays (shrunk failures of earlier runs; bypass Hypothesis)
    rdir = os.path.join(VERIF, "regress", prop_id)
    if os.path.isdir(rdir):
        for name in sorted(os.listdir(rdir)):
            if not name.endswith(".json"):
                continue
            with open(os.path.join(rdir, name)) as f:
                case = codec.dec(json.load(f)["case"])
            st0.add(mod, "regression-replays", 0, case, decide(mod, case))
    extra_parts.append(st0.export())

    # 2. the search (a thin extra shard runs concurrently in a child interpreter started with -O)
    opt_handle = None
    if getattr(mod, "OPT_STAGE", True) and not os.environ.get("VERIF_OPT_STAGE"):
        opt_handle = opt_stage(prop_id, tier, seed)
    jobs = [(prop_id, tier, seed, s, nshards) for s in range(nshards)]
    if nshards == 1:
        results = [run_shard(jobs[0])]
    else:
        ctx = multiprocessing.get_context("fork")
        with ctx.Pool(min(nshards, os.cpu_count() or 1)) as pool:
            results = pool.map(run_shard, jobs, chunksize=1)
    errors = [r[1] for r in results if r[0] != "ok"]
    if errors:
        raise HarnessError("worker failed:\n" + "\n".join(errors))
    # 2b. optional coverage-guided fuzz stage (atheris): crashing inputs come back as plain cases and are
    #     decided by the property's own check_case
    fuzz_info = None
    if hasattr(mod, "fuzz_stage"):
        fuzz_info, fuzz_cases = mod.fuzz_stage(tier, seed)
        st1 = Stats()
        for case in fuzz_cases:
            st1.add(mod, "atheris-crash-recheck", 0, case, decide(mod, case))
        extra_parts.append(st1.export())
    opt_note = None
    if opt_handle is not None:
        part, opt_note = opt_stage_finish(opt_handle)
        if part is not None:
            extra_parts.append(part)
    tot = merge(extra_parts + [r[1] for r in results])

    # 3. report known findings
    for kid, cnt in sorted(tot["known"].items()):
        entry = known.get(kid, {})
        print(f"KNOWN-FINDING: property={prop_id} {kid}: {entry.get('what_fails', '')} "
              f"[matched {cnt} generated/recorded case(s) in this run]")
    for note in known_notes:
        print(f"NOTE: {note}")

    # 4. shrink + report new failures
    violations = []
    budget_s = 40 if tier == "quick" else 150
    for sig, rec in sorted(tot["fails"].items(), key=lambda kv: kv[1]["size"])[:3]:
        case, detail = shrink_failure(mod, tier, seed, nshards, rec, sig, budget_s)
        path = write_replay(prop_id, sig, rec["clause"], detail, case, seed, tier, rec["phase"])
        violations.append(dict(sig=sig, clause=rec["clause"], detail=detail, count=rec["count"], replay=path))
    for sig, rec in sorted(tot["fails"].items(), key=lambda kv: kv[1]["size"])[3:]:
        path = write_replay(prop_id, sig, rec["clause"], rec["detail"], codec.dec(rec["case"]), seed, tier,
                            rec["phase"])
        violations.append(dict(sig=sig, clause=rec["clause"], detail=rec["detail"], count=rec["count"],
                               replay=path))

    # 5. evidence
    wall = time.time() - t0
    phases = mod.phases(tier)
    exhaustive = bool(phases) and all(p.exhaustive for p in phases)
    coverage = dict(
        evaluations=tot["evaluations"],
        distinct_nontrivial=len(tot["nontrivial"]),
        rule=mod.RULE,
        samples=tot["samples"],
        classes=dict(sorted(tot["classes"].items())),
        phases=dict({p.name: dict(cases=tot["phase_counts"].get(p.name, 0), exhaustive=p.exhaustive,
                                  kind="enumerated" if p.enum is not None else
                                  ("hypothesis-stateful" if p.machine is not None else "hypothesis"), note=p.note)
                     for p in phases},
                    **{k: dict(cases=c, kind="replayed files") for k, c in tot["phase_counts"].items()
                       if k in ("regression-replays", "known-finding-replay")},
                    **{k: dict(cases=c, kind="same phase, child interpreter started with -O")
                       for k, c in tot["phase_counts"].items() if k.endswith("[python -O]")}),
        exhaustive=exhaustive,
        exhaustive_phases=[p.name for p in phases if p.exhaustive],
        known_findings_matched=dict(tot["known"]),
        excluded_by_construction=dict(tot["excluded"]),
        inconclusive=dict(tot["inconclusive"]),
        shards=nshards,
        violations_detail=[dict(sig=v["sig"], count=v["count"], detail=v["detail"][:500]) for v in violations],
    )
    if fuzz_info is not None:
        coverage["fuzz"] = fuzz_info
    coverage["optimised_interpreter_stage"] = opt_note or "one thin shard re-run under python -O (counts under phases '... [python -O]')"
    if hasattr(mod, "extra_evidence"):
        coverage.update(mod.extra_evidence(tier))
    ev = dict(property_id=prop_id, tier=tier, seed=int(seed), level=mod.LEVEL, coverage=coverage,
              assumptions=list(getattr(mod, "ASSUMPTIONS", [])), wall_s=round(wall, 2),
              violations=len(violations))
    os.makedirs(os.path.join(OUT, "evidence"), exist_ok=True)
    with open(os.path.join(OUT, "evidence", f"{prop_id}.json"), "w") as f:
        json.dump(ev, f, indent=1)
        f.write("\n")

    print(f"{prop_id} tier={tier} seed={seed}: {tot['evaluations']} cases, "
          f"{len(tot['nontrivial'])} distinct non-trivial, {len(violations)} violation signature(s), "
          f"{sum(tot['known'].values())} known-finding match(es), "
          f"{sum(tot['inconclusive'].values())} inconclusive, {wall:.1f}s")
    for v in violations:
        print(f"  {v['clause']}: {v['detail'][:600]}  [{v['count']} case(s)]")
        print(f"VIOLATION property={prop_id} replay={v['replay']}")
    if violations:
        return 1
    # generator-quality floors only matter for a run that claims the property held
    if tot["evaluations"] == 0 or len(tot["nontrivial"]) < 2:
        raise HarnessError("the run explored no non-trivial cases: generator problem")
    floors = getattr(mod, "CLASS_FLOORS", {})
    for cname, frac in floors.items():
        if tot["classes"].get(cname, 0) < frac * tot["evaluations"]:
            raise HarnessError(f"generator floor missed: class {cname!r} = {tot['classes'].get(cname, 0)} "
                               f"of {tot['evaluations']} cases (< {frac:.0%})")
    return 1 if violations else 0


def main(argv):
    import argparse
    ap = argparse.ArgumentParser(prog="check")
    ap.add_argument("prop")
    ap.add_argument("--tier", default=os.environ.get("VERIF_TIER") or "quick", choices=["quick", "thorough"])
    ap.add_argument("--replay")
    ap.add_argument("--shards", type=int)
    a = ap.parse_args(argv)
    seed = int(os.environ.get("VERIF_SEED") or "1")
    prop_id = a.prop.upper()
    try:
        if a.replay:
            return replay(prop_id, a.replay)
        return run(prop_id, a.tier, seed, a.shards)
    except HarnessError as e:
        print(f"HARNESS-ERROR: {e}", flush=True)
        return 2
    except BaseException as e:
        if isinstance(e, SystemExit):
            raise
        print(f"HARNESS-ERROR: {type(e).__name__}: {e}\n{traceback.format_exc()}", flush=True)
        return 2
