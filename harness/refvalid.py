"""Independent statement of the documented well-formedness rules (R1-R11) of a game description
whose four fields are lists.  Shared by the Hypothesis multi-fault phase of C09 and the atheris
fuzz target (no third-party imports here)."""
P1, P2, PR = "Player 1", "Player 2", "Probabilistic"


def reference_valid(g):
    """None if well-formed, else the name of the first broken rule.  May raise on values outside
    the documented rule space (callers then skip the case)."""
    players, rewards, tl, finals = g["players"], g["rewards"], g["transition_list"], g["final_states"]
    n = len(players)
    if len(tl) != n or len(rewards) != n:
        return "R1"
    if any(r < 0 for r in rewards):
        return "R2"
    if any(p not in (P1, P2, PR) for p in players):
        return "R3"
    if not finals:
        return "R11"
    if any(f < 0 or f >= n for f in finals):
        return "R4"
    for s in range(n):
        lst = tl[s]
        if not isinstance(lst, list):
            return "R6" if not lst else "R7"
        if not lst:
            return "R6"
        for e in lst:
            if not isinstance(e, tuple) or len(e) != 2:
                return "R7"
            lab, t = e
            if players[s] == PR:
                if isinstance(lab, bool) or not isinstance(lab, (int, float)):
                    return "R9"
            elif not isinstance(lab, str):
                return "R8"
            if isinstance(t, bool) or not isinstance(t, int):
                return "R10"
            if t < 0 or t >= n:
                return "R5"
    return None
